import random

from crosshair.tracers import NoTracing
from crosshair.util import NotDeterministic

from vlib import sym


class State:
    cond = None
    paths = 0
    reached = 0           # paths that reached the final assertion (reachability witness count)
    witnesses = []        # sampled concrete inputs of passing paths
    counterexample = None
    rng = random.Random(0)
    max_witnesses = 48
    path_hooks = []       # callables run at the start of every path (model state reset)


STATE = State()


def _keep_witness(idx):
    if idx < 16:
        return True
    return STATE.rng.random() < 0.15


import os as _os
_DEBUG = bool(_os.environ.get("VERIF_DEBUG_PATHS"))


def run_current():
    st = STATE
    with NoTracing():
        st.paths += 1
        sym.begin_path()
        for h in st.path_hooks:
            h()
    detail = None
    try:
        ok = st.cond.body()
        if isinstance(ok, tuple):
            ok, detail = ok
    except NotDeterministic:
        raise
    except Exception as e:  # the real code (or a model) raised where the harness expected a value
        ok = False
        with NoTracing():
            import traceback
            tb = traceback.extract_tb(e.__traceback__)
            tb = [f for f in tb if "/site-packages/z3/" not in f.filename and "/crosshair/" not in f.filename] or tb
            where = "; ".join(f"{f.filename.rsplit('/', 1)[-1]}:{f.lineno}" for f in tb[-5:])
            detail = f"raised {type(e).__name__}: {str(e)[:200]} @ {where}"
    if _DEBUG:
        with NoTracing():
            import sys as _sys
            print(f"[path {st.paths}] ok={type(ok).__name__}:{ok if isinstance(ok, bool) else '?'} detail={detail if isinstance(detail, str) else type(detail).__name__}", file=_sys.stderr, flush=True)
    if ok:  # forks when symbolic: one solver query "can the assertion fail on this path?"
        with NoTracing():
            st.reached += 1
            if len(st.witnesses) < st.max_witnesses and _keep_witness(st.reached - 1):
                snap = sym.snapshot()
                if snap is not None:
                    st.witnesses.append(snap)
        return True
    with NoTracing():
        st.reached += 1
        snap = sym.snapshot()
        if callable(detail):
            try:
                detail = detail()
            except Exception as e:  # noqa
                detail = f"<detail failed: {e!r}>"
            except BaseException as e:  # noqa  (CrossHairInternal: a symbolic value was formatted outside tracing - the verdict stands, the text is lost)
                if type(e).__name__ != "CrossHairInternal":
                    raise
                detail = "<detail not printable: symbolic value>"
        if type(detail) is not str:
            # a detail text built eagerly from symbolic values is itself symbolic: render it without touching the solver state
            try:
                from crosshair.core import deep_realize
                detail = str(deep_realize(detail)) if detail is not None else "None"
            except BaseException as e:  # noqa
                if not isinstance(e, Exception) and type(e).__name__ != "CrossHairInternal":
                    raise
                detail = "<detail not printable: symbolic value>"
        st.counterexample = {"inputs": snap, "detail": detail}
    return False
