"""Identity-based rebinding of third-party objects inside pyrepseq's modules to their models.

No name in pyrepseq is assumed: after importing the package we walk the globals of every
`pyrepseq.*` module and replace any value that *is* a modelled library object (function, class or
module) by its stand-in.  pyrepseq's source is never edited."""
import sys
import types


class ModuleProxy(types.ModuleType):
    """Stands in for a library module: modelled names are overridden, everything else falls
    through to the real module (and is recorded, so the evidence can list un-modelled uses)."""

    def __init__(self, real, overrides, fallthrough_log=None, wrap=None):
        super().__init__(real.__name__)
        object.__setattr__(self, "_wrap", wrap)
        object.__setattr__(self, "_real", real)
        object.__setattr__(self, "_overrides", dict(overrides))
        object.__setattr__(self, "_log", fallthrough_log if fallthrough_log is not None else set())

    def __getattr__(self, name):
        ov = object.__getattribute__(self, "_overrides")
        if name in ov:
            return ov[name]
        real = object.__getattribute__(self, "_real")
        val = getattr(real, name)
        if not name.startswith("__"):
            object.__getattribute__(self, "_log").add(f"{real.__name__}.{name}")
            wrap = object.__getattribute__(self, "_wrap")
            if wrap is not None:
                return wrap(name, val)
        return val


def target_modules(prefix="pyrepseq"):
    return [m for n, m in list(sys.modules.items())
            if m is not None and (n == prefix or n.startswith(prefix + "."))]


def rebind(mapping, prefix="pyrepseq"):
    """mapping: list of (real_object, model_object).  Returns list of (module, name) rebound."""
    done = []
    ids = {id(real): model for real, model in mapping}
    for mod in target_modules(prefix):
        for name, val in list(vars(mod).items()):
            if id(val) in ids and val is not ids[id(val)]:
                setattr(mod, name, ids[id(val)])
                done.append((mod.__name__, name))
    # default arguments / class attributes that captured a library object at definition time
    return done
