"""Verification machinery for pyrepseq: solver-based checking of the real code."""
