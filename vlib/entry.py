"""The function CrossHair analyses.  Its contract is read from this source text; the body it
runs is whatever condition the worker selected (vlib.xh_worker.STATE.cond)."""
from vlib import xh_state


def entry(dummy: int) -> bool:
    """
    post: _
    """
    return xh_state.run_current()
