"""./vcheck <ID> [--tier quick|thorough] [--only substr] [--replay file]"""
import argparse
import concurrent.futures as cf
import hashlib
import importlib
import json
import os
import shutil
import subprocess
import sys
import tempfile
import time

HERE = os.path.dirname(os.path.dirname(os.path.abspath(__file__)))
sys.path.insert(0, HERE)
REPO = os.environ.get("VERIF_REPO", "/repo")
PY = os.path.join(HERE, ".venv", "bin", "python")
NCPU = int(os.environ.get("VERIF_JOBS", "0") or 0) or (os.cpu_count() or 4)


def env_for_child(extra=None):
    env = dict(os.environ)
    env["PYTHONHASHSEED"] = "0"
    env["PYTHONPATH"] = HERE + os.pathsep + REPO
    env["VERIF_REPO"] = REPO
    env.setdefault("VERIF_SEED", "0")
    env["MPLBACKEND"] = "Agg"
    env["OMP_NUM_THREADS"] = env["OPENBLAS_NUM_THREADS"] = "1"
    if extra:
        env.update(extra)
    return env


def load_findings(pid):
    path = os.path.join(HERE, "known_findings.json")
    if not os.path.exists(path):
        return []
    return [f for f in json.load(open(path))["findings"] if f["property"] == pid]


def run_worker(hmod, tier, cond, workdir, active_known):
    if cond.engine == "PROBE":
        # concrete probe of the real library stack at a scale no symbolic bound reaches: no solver run, its replay function is executed once
        return {"id": cond.id, "status": "PROBE", "paths": 0, "queries": 0, "solver_s": 0, "cpu_s": 0, "witnesses": [{}],
                "counterexample": None, "functions_encoded": [], "reached": 0,
                "messages": ["concrete probe on the real stack - not a solver verdict"], "wall_s": 0}
    out = os.path.join(workdir, hashlib.sha1(cond.id.encode()).hexdigest()[:16] + ".json")
    module = "vlib.smt_worker" if cond.engine == "SMT" else "vlib.xh_worker"
    cmd = [PY, "-m", module, hmod, tier, cond.id, out]
    t0 = time.time()
    wall_limit = cond.budget * 1.6 + 90
    try:
        p = subprocess.run(cmd, cwd=HERE, env=env_for_child({"VERIF_ACTIVE_KNOWN": ",".join(sorted(active_known))}),
                           stdout=subprocess.PIPE, stderr=subprocess.STDOUT, timeout=wall_limit)
        tail = p.stdout.decode(errors="replace")[-1500:]
    except subprocess.TimeoutExpired:
        return {"id": cond.id, "status": "INCONCLUSIVE", "paths": 0, "queries": 0, "solver_s": 0, "cpu_s": 0,
                "witnesses": [], "counterexample": None, "functions_encoded": [],
                "messages": [f"worker exceeded wall limit {wall_limit:.0f}s"], "wall_s": time.time() - t0}
    if os.path.exists(out):
        res = json.load(open(out))
    else:
        res = {"id": cond.id, "status": "ERROR", "paths": 0, "queries": 0, "solver_s": 0, "cpu_s": 0,
               "witnesses": [], "counterexample": None, "functions_encoded": [],
               "messages": ["worker produced no result: " + tail]}
    res["wall_s"] = round(time.time() - t0, 2)
    return res


CORPUS_PER_COND = 10


def load_corpus(pid):
    path = os.path.join(HERE, "corpus", f"{pid}.json")
    try:
        return json.load(open(path))
    except Exception:  # noqa
        return {}


def write_corpus(pid, good_witnesses, merge_ids):
    """keep up to CORPUS_PER_COND validated witnesses per condition; conditions not run this time keep their entries"""
    path = os.path.join(HERE, "corpus", f"{pid}.json")
    os.makedirs(os.path.dirname(path), exist_ok=True)
    cur = load_corpus(pid)
    for cid in merge_ids:
        ws, seen = [], set()
        for w in good_witnesses.get(cid, []) + cur.get(cid, []):
            k = json.dumps(w, sort_keys=True)
            if k not in seen:
                seen.add(k)
                ws.append(w)
        if ws:
            # evenly spaced over the exploration order rather than the first few: later paths are the rarer input classes
            if len(ws) > CORPUS_PER_COND:
                step = (len(ws) - 1) / (CORPUS_PER_COND - 1)
                ws = [ws[round(k * step)] for k in range(CORPUS_PER_COND)]
            cur[cid] = ws
    json.dump(cur, open(path, "w"), sort_keys=True, separators=(",", ":"))
    return sum(len(v) for v in cur.values())


def replay_jobs(hmod, tier, jobs, workdir):
    if not jobs:
        return []
    jf, of = os.path.join(workdir, "replay_jobs.json"), os.path.join(workdir, "replay_out.json")
    json.dump(jobs, open(jf, "w"))
    p = subprocess.run([PY, "-m", "vlib.replay", hmod, tier, jf, of], cwd=HERE, env=env_for_child(),
                       stdout=subprocess.PIPE, stderr=subprocess.STDOUT, timeout=1800)
    if not os.path.exists(of):
        raise RuntimeError("replay failed: " + p.stdout.decode(errors="replace")[-2000:])
    return json.load(open(of))


def main(argv=None):
    ap = argparse.ArgumentParser()
    ap.add_argument("pid")
    ap.add_argument("--tier", default=os.environ.get("VERIF_TIER") or "quick")
    ap.add_argument("--only", default=None, help="run only conditions whose id contains this substring (development)")
    ap.add_argument("--replay", default=None)
    ap.add_argument("--list", action="store_true")
    ap.add_argument("--no-evidence", action="store_true")
    ap.add_argument("--write-corpus", action="store_true",
                    help="store this run's (real-stack validated) witnesses under corpus/<ID>.json - maintenance on the unchanged tree only")
    args = ap.parse_args(argv)
    pid, tier = args.pid, args.tier
    if tier not in ("quick", "thorough"):
        tier = "quick"
    hmod = f"harness.{pid}"
    seed = int(os.environ.get("VERIF_SEED", "0") or 0)
    t_start = time.time()
    workdir = tempfile.mkdtemp(prefix=f"verif_{pid}_", dir=os.path.join(HERE, ".work") if os.path.isdir(os.path.join(HERE, ".work")) or not os.makedirs(os.path.join(HERE, ".work"), exist_ok=True) else None)
    try:
        return _main(args, pid, tier, hmod, seed, t_start, workdir)
    finally:
        shutil.rmtree(workdir, ignore_errors=True)


def _main(args, pid, tier, hmod, seed, t_start, workdir):
    if args.replay:
        job = json.load(open(args.replay))
        res = replay_jobs(job["harness"], job.get("tier", "thorough"), [{"cond": job["cond"], "inputs": job["inputs"]}], workdir)[0]
        if res["ok"]:
            print(f"replay: property holds on this input now ({job['cond']})")
            return 0
        print(f"replay: {res['detail']}")
        print(f"VIOLATION property={job['property']} replay={args.replay}")
        return 1

    harness = importlib.import_module(hmod)
    conds = harness.conditions(tier)
    if args.only:
        conds = [c for c in conds if args.only in c.id]
    if args.list:
        for c in conds:
            print(c.id, c.budget, c.engine)
        return 0

    # -------- conformance pre-flight of the library models against the real libraries
    conf = {"ok": None}
    if any(c.models for c in conds):
        conf_file = os.path.join(workdir, "conformance.json")
        try:
            subprocess.run([PY, "-m", "models.conformance", conf_file], cwd=HERE, env=env_for_child(), stdout=subprocess.PIPE,
                           stderr=subprocess.STDOUT, timeout=300)
            conf = json.load(open(conf_file))
        except Exception as e:  # noqa
            conf = {"ok": False, "models": {"error": repr(e)}}
        if not conf.get("ok"):
            bad = {k: v for k, v in conf.get("models", {}).items() if not isinstance(v, dict) or v.get("disagreements")}
            print(f"MODEL-CONFORMANCE-ERROR property={pid}: a library model disagrees with the real library: {json.dumps(bad)[:600]}")

    findings = load_findings(pid)
    known = [f for f in findings if f["status"] == "known"]
    active_known = {f["id"] for f in known}

    # -------- known findings: does each listed witness still fail on the real code?
    kf_jobs = [{"cond": f["witness"]["cond"], "inputs": f["witness"]["inputs"]} for f in findings if f.get("witness")]
    kf_res = replay_jobs(hmod, "thorough", kf_jobs, workdir) if kf_jobs else []
    kf_lines, regress = [], []
    for f, r in zip([f for f in findings if f.get("witness")], kf_res):
        if f["status"] == "known":
            if not r["ok"]:
                kf_lines.append(f"KNOWN-FINDING: property={pid} {f['what']} [{f['id']}]")
            else:
                print(f"note: known finding {f['id']} no longer reproduces (entry is due to become 'fixed')")
                active_known.discard(f["id"])
        elif f["status"] == "fixed" and not r["ok"]:
            regress.append((f, r))

    # -------- solver runs
    results = {}
    order = sorted(conds, key=lambda c: -c.budget)
    with cf.ThreadPoolExecutor(max_workers=NCPU) as ex:
        futs = {ex.submit(run_worker, hmod, tier, c, workdir, active_known): c for c in order}
        for fut in cf.as_completed(futs):
            c = futs[fut]
            r = fut.result()
            results[c.id] = r
            if os.environ.get("VERIF_VERBOSE"):
                print(f"  [{r['status']:12}] {c.id} paths={r['paths']} q={r['queries']} cpu={r['cpu_s']}s", flush=True)

    # -------- replays on the real stack
    jobs, tags = [], []
    for c in conds:
        r = results[c.id]
        if r["status"] == "REFUTED" and r["counterexample"] and r["counterexample"]["inputs"] is not None:
            jobs.append({"cond": c.id, "inputs": r["counterexample"]["inputs"]})
            tags.append(("cex", c.id))
        elif r.get("candidate") and r.get("counterexample") and r["counterexample"]["inputs"] is not None:
            jobs.append({"cond": c.id, "inputs": r["counterexample"]["inputs"]})
            tags.append(("cand", c.id))
        wl = r.get("witnesses", [])
        cap = len(wl) if tier == "thorough" else min(len(wl), 12)
        for w in wl[:cap]:
            jobs.append({"cond": c.id, "inputs": w})
            tags.append(("wit", c.id))
    # corpus: witnesses the solver produced for these conditions on the unchanged tree (one per explored path, committed under corpus/).
    # They are replayed on the real stack on every run, whatever the solver said this time: when a change makes a condition undecidable
    # (an API the models do not cover, a budget that runs out) the current run has no witnesses of its own, the corpus still has.
    corpus = load_corpus(pid)
    have = {(t[1], json.dumps(j["inputs"], sort_keys=True)) for t, j in zip(tags, jobs)}
    for c in conds:
        for w in corpus.get(c.id, [])[:CORPUS_PER_COND]:
            key = (c.id, json.dumps(w, sort_keys=True))
            if key in have:
                continue
            have.add(key)
            jobs.append({"cond": c.id, "inputs": w})
            tags.append(("corpus", c.id))
    rep = replay_jobs(hmod, tier, jobs, workdir)
    # corpus entries of conditions that only the thorough tier decides symbolically: their witnesses still run on the real stack in the quick tier
    if tier == "quick" and corpus:
        ids_now = {c.id for c in conds}
        extra = [{"cond": cid, "inputs": w} for cid in sorted(corpus) if cid not in ids_now and (not args.only or args.only in cid)
                 for w in corpus[cid][:CORPUS_PER_COND]]
        if extra:
            try:
                thorough_ids = {c.id for c in harness.conditions("thorough")}
                extra = [j for j in extra if j["cond"] in thorough_ids]
                rep += replay_jobs(hmod, "thorough", extra, workdir)
                jobs += extra
                tags += [("corpus", j["cond"]) for j in extra]
            except Exception as e:  # noqa
                print(f"note: thorough-tier corpus entries not replayed: {e!r}"[:300])

    violations, harness_errors = [], []
    validated = corpus_replayed = 0
    good_witnesses = {}
    for (kind, cid), job, rr in zip(tags, jobs, rep):
        if kind == "cex":
            if not rr["ok"]:
                violations.append({"cond": cid, "inputs": job["inputs"], "detail": rr["detail"],
                                   "symbolic_detail": results[cid]["counterexample"]["detail"], "found_by": "solver"})
            else:
                harness_errors.append({"cond": cid, "inputs": job["inputs"],
                                       "detail": "solver counterexample does not reproduce on the real stack: "
                                                 + str(results[cid]["counterexample"]["detail"])})
                results[cid]["status"] = "INCONCLUSIVE"
                results[cid]["messages"].append("counterexample did not reproduce -> model/harness imprecision")
        elif kind == "cand":
            # candidate from an unconfirmed path: a violation only if the real stack reproduces it; silence otherwise (the condition stays INCONCLUSIVE)
            if not rr["ok"]:
                results[cid]["status"] = "REFUTED"
                violations.append({"cond": cid, "inputs": job["inputs"], "detail": rr["detail"],
                                   "symbolic_detail": results[cid]["counterexample"]["detail"],
                                   "found_by": "solver (path not confirmed by CrossHair; reproduced on the real stack)"})
            else:
                results[cid]["messages"].append("candidate counterexample from an unconfirmed path did not reproduce")
        elif kind == "corpus":
            corpus_replayed += 1
            if not rr["ok"]:
                violations.append({"cond": cid, "inputs": job["inputs"], "detail": rr["detail"],
                                   "found_by": "corpus witness (solver-generated on the unchanged tree) replayed on the real stack"})
        else:
            validated += 1
            if rr["ok"]:
                good_witnesses.setdefault(cid, []).append(job["inputs"])
            if results[cid]["status"] == "PROBE" and not rr["ok"]:
                results[cid]["status"] = "PROBE-FAILED"
            if not rr["ok"]:
                violations.append({"cond": cid, "inputs": job["inputs"], "detail": rr["detail"],
                                   "found_by": "witness replay on the real stack (model more permissive than the library?)"})
    for f, r in regress:
        violations.append({"cond": f["witness"]["cond"], "inputs": f["witness"]["inputs"], "detail": r["detail"],
                           "found_by": f"regression input of fixed finding {f['id']}"})

    # -------- violations that are exactly a listed known finding (same call site / input class, same failure) are
    # reported as KNOWN-FINDING; anything else in the same conditions is still a VIOLATION
    import re
    remaining = []
    for v in violations:
        hit = None
        for f in known:
            cov = f.get("covers")
            if not cov:
                continue
            if any(v["cond"].startswith(pfx) for pfx in cov.get("conditions", [])) and re.search(cov.get("detail_regex", "."), v["detail"] or ""):
                hit = f
                break
        if hit is None:
            remaining.append(v)
        else:
            line = f"KNOWN-FINDING: property={pid} {hit['what']} [{hit['id']}]"
            if line not in kf_lines:
                kf_lines.append(line)
    violations = remaining

    # -------- report
    for line in kf_lines:
        print(line)
    rc = 0
    rdir = os.path.join(HERE, "replays", pid)
    seen_digest = set()
    for v in violations:
        payload = {"property": pid, "harness": hmod, "tier": tier, "cond": v["cond"], "inputs": v["inputs"],
                   "detail": v["detail"], "found_by": v["found_by"]}
        digest = hashlib.sha1(json.dumps([v["cond"], v["inputs"]], sort_keys=True).encode()).hexdigest()[:12]
        if digest in seen_digest:
            continue
        seen_digest.add(digest)
        os.makedirs(rdir, exist_ok=True)
        path = os.path.join(rdir, digest + ".json")
        json.dump(payload, open(path, "w"), indent=1)
        print(f"violation: {v['cond']}: {v['detail']}")
        print(f"VIOLATION property={pid} replay={path}")
        rc = 1
    for h in harness_errors:
        print(f"HARNESS-ERROR property={pid} {h['cond']}: {h['detail']} inputs={json.dumps(h['inputs'])}")
    counts = {}
    for r in results.values():
        counts[r["status"]] = counts.get(r["status"], 0) + 1
    for c in conds:
        r = results[c.id]
        if r["status"] in ("ERROR", "INCONCLUSIVE"):
            print(f"{r['status']}: {c.id}: {' | '.join(r['messages'])[-600:]}")
    wall = time.time() - t_start
    print(f"{pid} {tier}: {len(conds)} conditions {counts}; paths={sum(r['paths'] for r in results.values())} "
          f"queries={sum(r['queries'] for r in results.values())} solver={sum(r['solver_s'] for r in results.values()):.1f}s "
          f"replayed={validated}+{corpus_replayed} wall={wall:.0f}s")
    if harness_errors and os.environ.get("VERIF_STRICT") == "1":
        rc = rc or 3
    if any(r["status"] == "ERROR" for r in results.values()) and os.environ.get("VERIF_STRICT") == "1":
        rc = rc or 3
    if conf.get("ok") is False and os.environ.get("VERIF_STRICT") == "1":
        rc = rc or 3

    if args.write_corpus:
        if rc == 0 and not harness_errors:
            n = write_corpus(pid, good_witnesses, [c.id for c in conds])
            print(f"corpus: {n} witnesses stored for {pid}")
        else:
            print("corpus: not written (the run reported a violation or a harness error)")
    if not args.no_evidence and not args.only:
        from vlib import evidence
        evidence.write(pid, tier, seed, harness, conds, results, violations, harness_errors, kf_lines, validated, wall, conf,
                       corpus_replayed=corpus_replayed)
    return rc


if __name__ == "__main__":
    sys.exit(main())
