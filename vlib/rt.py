"""Run-time support shared by the XH worker and the harness bodies."""
import os


class Condition:
    """One solver obligation: `body()` runs under the CrossHair tracer, builds its symbolic inputs
    with vlib.sym, calls the REAL pyrepseq function(s) and returns a (symbolic) bool that must be
    true on every path.  `replay(inputs)` re-executes the same public call on the real, unmodelled
    stack with concrete inputs and an independent concrete oracle -> (ok, detail)."""

    def __init__(self, cid, body, replay, budget=60, bounds="", models=(), setup=None,
                 engine="XH", info=None, excludes=()):
        self.id = cid
        self.body = body
        self.replay = replay
        cap = os.environ.get("VERIF_BUDGET_CAP")      # maintenance runs (corpus generation): per-condition CPU budget capped; a condition
        self.budget = min(budget, float(cap)) if cap else budget   # that runs out is INCONCLUSIVE as always, its explored paths still yield witnesses
        self.bounds = bounds
        self.models = tuple(models)
        self.setup = setup
        self.engine = engine
        self.info = info or {}
        self.excludes = tuple(excludes)   # known-finding ids whose input class this condition may exclude


class Unexpected(Exception):
    """Raised by a harness body to report a failure with a message."""


REPO = os.environ.get("VERIF_REPO", "/repo")
SEED = int(os.environ.get("VERIF_SEED", "0") or 0)
