"""CrossHair plugin (part of the trusted base).

1. dict/set *display* de-optimisation: `{}` / `{k: v}` / `{x}` built in target code become CrossHair's
   linear, equality-based containers, so symbolic strings used as keys are compared with `==`
   (solver decides) instead of being hashed (which would realise them).
2. code-object recorder: which functions of the target tree were executed under the tracer
   (this is the measured "functions encoded" list of the evidence).
"""
import dis
import os

import crosshair.core as _core
from crosshair.libimpl.builtinslib import ShellMutableMap
from crosshair.opcode_intercept import frame_op_arg
from crosshair.simplestructs import LinearSet, ShellMutableSet, SimpleDict
from crosshair.util import CrossHairValue
from crosshair.tracers import (
    COMPOSITE_TRACER,
    ResumedTracing,
    TracingModule,
    frame_stack_read,
    frame_stack_write,
)

BUILD_MAP = dis.opmap["BUILD_MAP"]
BUILD_SET = dis.opmap["BUILD_SET"]
CONTAINS_OP = dis.opmap["CONTAINS_OP"]
RESUME = dis.opmap["RESUME"]
RETURN_OPS = frozenset(dis.opmap[n] for n in ("RETURN_VALUE", "RETURN_CONST", "YIELD_VALUE") if n in dis.opmap)
_DICT_MERGE = dis.opmap["DICT_MERGE"]
_DICT_UPDATE = dis.opmap["DICT_UPDATE"]
_SET_UPDATE = dis.opmap["SET_UPDATE"]

TARGET_PREFIXES = []
ENCODED = set()          # (relative file, qualname) of target code objects entered under the tracer
_SKIP_CACHE = {}


def set_targets(prefixes):
    TARGET_PREFIXES[:] = [os.path.realpath(p) for p in prefixes]


def _wanted(frame):
    fn = frame.f_code.co_filename
    for p in TARGET_PREFIXES:
        if fn.startswith(p):
            return True
    return False


def _feeds_update(code, lasti, update_ops):
    """Is the empty container built at `lasti` consumed by DICT_MERGE/DICT_UPDATE/SET_UPDATE?

    `f(**kw)` compiles to BUILD_MAP 0; <push kw>; DICT_MERGE 1 and a constant set display
    `{"a","b",...}` to BUILD_SET 0; LOAD_CONST frozenset; SET_UPDATE 1.  The C implementations of
    these opcodes insist on a real dict/set, so such containers are left alone.  We follow the
    stack depth of the fresh container until it is consumed (straight-line scan).
    """
    key = (code, lasti)
    if key in _SKIP_CACHE:
        return _SKIP_CACHE[key]
    res = False
    depth = 0  # number of items above our container
    started = False
    for ins in dis.get_instructions(code):
        if ins.offset <= lasti:
            continue
        started = True
        if ins.opcode in update_ops and ins.arg == depth:
            # X_UPDATE i: container is at stack[-i] after popping the iterable/mapping
            res = True
            break
        try:
            eff = dis.stack_effect(ins.opcode, ins.arg if ins.opcode >= dis.HAVE_ARGUMENT else None, jump=False)
        except ValueError:
            break
        # an instruction that consumes below our container ends the scan
        depth += eff
        if depth < 0 or ins.opname.startswith(("JUMP", "POP_JUMP", "RETURN", "FOR_ITER", "RAISE")):
            break
        if depth > 6:
            break
    _SKIP_CACHE[key] = res
    return res


class BuildMapInterceptor(TracingModule):
    opcodes_wanted = frozenset([BUILD_MAP])

    def trace_op(self, frame, codeobj, codenum):
        if not _wanted(frame):
            return
        n = frame_op_arg(frame)
        if _feeds_update(frame.f_code, frame.f_lasti, (_DICT_MERGE, _DICT_UPDATE)):
            return
        items = []
        for idx in range(n):
            koff = -2 * (n - idx)
            voff = koff + 1
            items.append((frame_stack_read(frame, koff), frame_stack_read(frame, voff)))
            frame_stack_write(frame, koff, idx)  # dummy concrete, pairwise distinct keys

        def post_op():
            with ResumedTracing():
                d = ShellMutableMap(SimpleDict([]))
                for k, v in items:
                    d[k] = v
            frame_stack_write(frame, -1, d)

        COMPOSITE_TRACER.set_postop_callback(post_op, frame)


class BuildSetInterceptor(TracingModule):
    opcodes_wanted = frozenset([BUILD_SET])

    def trace_op(self, frame, codeobj, codenum):
        if not _wanted(frame):
            return
        n = frame_op_arg(frame)
        if _feeds_update(frame.f_code, frame.f_lasti, (_SET_UPDATE,)):
            return
        items = []
        for idx in range(n):
            off = -(n - idx)
            items.append(frame_stack_read(frame, off))
            frame_stack_write(frame, off, idx)

        def post_op():
            with ResumedTracing():
                s = ShellMutableSet()
                for it in items:
                    s.add(it)
            frame_stack_write(frame, -1, s)

        COMPOSITE_TRACER.set_postop_callback(post_op, frame)


class FrozensetContainsInterceptor(TracingModule):
    """`x in {"a", "b"}` compiles to a frozenset constant + CONTAINS_OP; CrossHair de-optimises set and
    dict containers but not frozenset, so a symbolic `x` would be hashed (= realised)."""
    opcodes_wanted = frozenset([CONTAINS_OP])

    def trace_op(self, frame, codeobj, codenum):
        item = frame_stack_read(frame, -2)
        if not isinstance(item, CrossHairValue):
            return
        container = frame_stack_read(frame, -1)
        if type(container) is frozenset:
            frame_stack_write(frame, -1, ShellMutableSet(LinearSet(container)))


class EncodedRecorder(TracingModule):
    opcodes_wanted = RETURN_OPS

    def trace_op(self, frame, codeobj, codenum):
        code = frame.f_code
        fn = code.co_filename
        for p in TARGET_PREFIXES[:1]:
            if fn.startswith(p):
                ENCODED.add((fn[len(p):].lstrip("/"), code.co_qualname))


def install(record=True):
    mods = [BuildMapInterceptor(), BuildSetInterceptor(), FrozensetContainsInterceptor()]
    if record:
        mods.append(EncodedRecorder())
    for m in mods:
        if type(m) not in map(type, _core._OPCODE_PATCHES):
            # register_opcode_patch() refuses opcodes the C tracer does not list; appending directly makes
            # the C tracer fall back to its trace-every-opcode mode, which is what we need.
            _core._OPCODE_PATCHES.append(m)
