"""SMT engine: fork-on-branch symbolic execution of the real ARITHMETIC code by operator overloading.

The real function is called on `Sym` objects (or lists / object arrays of them).  Arithmetic builds z3 terms;
a comparison yields a `SymBool` whose truth value is decided by a depth-first decision schedule (both sides
checked for feasibility with z3), i.e. classic symbolic execution, one run of the real function per path.
At the end of each path the harness returns a claim term; `path condition AND NOT claim` must be `unsat`.
`sat` gives a model = concrete counterexample; `unknown` is inconclusive, never success.

Transcendental functions are uninterpreted (log, pow with non-integer exponent, zeta); axioms are added only
where a harness asks for them, and are listed in the evidence.
"""
import math
import time
from fractions import Fraction

import z3


class SymZeroDivision(ZeroDivisionError):
    pass


class Engine:
    def __init__(self, timeout_ms=20000):
        self.timeout_ms = timeout_ms
        self.solver = None
        self.vars = []            # [(name, kind, z3 var)] of the current path
        self.pc = []              # path condition terms
        self.schedule = []        # decisions to follow
        self.decisions = []       # decisions taken on this path
        self.pending = []         # schedules still to explore
        self.queries = 0
        self.solver_s = 0.0
        self.axioms = []
        self.axiom_notes = []
        self.ufs = {}
        self.unknowns = 0
        self.cross_check = False
        self.cross = []           # (z3 verdict, cvc5 verdict) per cross-checked final query

    # ---- solver plumbing (one incremental solver per path; extra terms via push/pop)
    def _new_path(self):
        self.vars, self.decisions = [], []
        self.pc = _PC(self)
        self.solver = z3.Solver()
        self.solver.set("timeout", self.timeout_ms)
        for a in self.axioms:
            self.solver.add(a)
        self._axioms_in_solver = len(self.axioms)

    def _check(self, *terms):
        s = self.solver
        while self._axioms_in_solver < len(self.axioms):
            s.add(self.axioms[self._axioms_in_solver])
            self._axioms_in_solver += 1
        t0 = time.perf_counter()
        if terms:
            s.push()
            for t in terms:
                s.add(t)
            r = s.check()
            holder = _ModelHolder(s.model() if r == z3.sat else None)
            s.pop()
        else:
            r = s.check()
            holder = _ModelHolder(s.model() if r == z3.sat else None)
        self.solver_s += time.perf_counter() - t0
        self.queries += 1
        return str(r), holder

    # ---- inputs
    def real(self, name, lo=None, hi=None):
        v = z3.Real(name)
        self.vars.append((name, "real", v))
        if lo is not None:
            self.pc.append(v >= lo)
        if hi is not None:
            self.pc.append(v <= hi)
        return Sym(self, v)

    def int(self, name, lo=None, hi=None):
        v = z3.Int(name)
        self.vars.append((name, "int", v))
        if lo is not None:
            self.pc.append(v >= lo)
        if hi is not None:
            self.pc.append(v <= hi)
        return Sym(self, v)

    def assume(self, cond):
        t = cond.term if isinstance(cond, SymBool) else cond
        if isinstance(t, bool):
            if not t:
                raise Infeasible()
            return
        self.pc.append(t)

    def uf(self, name, arity=1):
        key = (name, arity)
        if key not in self.ufs:
            self.ufs[key] = z3.Function("uf_" + name, *([z3.RealSort()] * (arity + 1)))
        return self.ufs[key]

    def axiom(self, term, note):
        self.axioms.append(term)
        if note not in self.axiom_notes:
            self.axiom_notes.append(note)

    def cvc5_verdict(self, *terms, tlimit_ms=20000):
        """Second opinion on `axioms AND path condition AND terms` from cvc5 (through SMT-LIB text).  Returns
        'sat' | 'unsat' | 'unknown' | 'error: ...'.  Used in the thorough tier to diff the two solvers."""
        try:
            import cvc5
            s2 = z3.Solver()
            for a in self.axioms:
                s2.add(a)
            for t in self.pc:
                s2.add(t)
            for t in terms:
                s2.add(t)
            txt = s2.to_smt2()
            slv = cvc5.Solver()
            slv.setOption("tlimit-per", str(int(tlimit_ms)))
            slv.setLogic("ALL")
            parser = cvc5.InputParser(slv)
            parser.setStringInput(cvc5.InputLanguage.SMT_LIB_2_6, txt, "query")
            sm = parser.getSymbolManager()
            verdict = "unknown"
            while True:
                cmd = parser.nextCommand()
                if cmd.isNull():
                    break
                out = str(cmd.invoke(slv, sm)).strip()
                if out in ("sat", "unsat", "unknown"):
                    verdict = out
                elif out.startswith("(error"):
                    return "error: " + out[:120]
            return verdict
        except Exception as e:  # noqa
            return "error: " + repr(e)[:120]

    def prove_any(self, forms):
        """Several logically equivalent formulations of one claim (solvers are sensitive to the shape of non-linear
        goals): the first that is decided wins.  Returns True (valid), or the formulation to hand back to the engine
        (refuted -> the engine extracts the model; all unknown -> reported as unknown)."""
        for f in forms:
            r, _ = self._check(z3.Not(f))
            if r == "unsat":
                return True
            if r == "sat":
                return f
        return forms[0]

    # ---- branching
    def decide(self, term):
        term = z3.simplify(term)
        if z3.is_true(term):
            return True
        if z3.is_false(term):
            return False
        idx = len(self.decisions)
        if idx < len(self.schedule):
            val = self.schedule[idx]
        else:
            rt, _ = self._check(term)
            rf, _ = self._check(z3.Not(term))
            if rt == "unknown" or rf == "unknown":
                self.unknowns += 1
            can_t, can_f = rt != "unsat", rf != "unsat"
            if can_t and can_f:
                val = True
                self.pending.append([d for d in self.decisions] + [False])
            elif can_t:
                val = True
            elif can_f:
                val = False
            else:
                raise Infeasible()
        self.decisions.append(val)
        self.pc.append(term if val else z3.Not(term))
        return val

    # ---- exploration driver
    def explore(self, body, max_paths=5000, deadline=None):
        """body(engine) -> claim (SymBool / bool / z3 term) or (claim, detail).  Yields per-path records."""
        self.pending = [[]]
        paths = 0
        while self.pending:
            if paths >= max_paths or (deadline is not None and time.time() > deadline):
                yield {"status": "budget"}
                return
            self.schedule = self.pending.pop()
            self._new_path()
            paths += 1
            detail = None
            try:
                claim = body(self)
                if isinstance(claim, tuple):
                    claim, detail = claim
            except Infeasible:
                continue
            except Exception as e:  # the real code raised on this path
                import traceback
                tb = traceback.extract_tb(e.__traceback__)
                where = "; ".join(f"{f.filename.rsplit('/', 1)[-1]}:{f.lineno}" for f in tb[-3:])
                claim, detail = False, f"raised {type(e).__name__}: {str(e)[:200]} @ {where}"
            term = claim.term if isinstance(claim, SymBool) else claim
            if isinstance(term, bool):
                if term:
                    r, s = self._check()
                    yield {"status": "holds", "witness": self._model(s) if r == "sat" else None}
                    continue
                r, s = self._check()
                if r == "sat":
                    yield {"status": "refuted", "inputs": self._model(s), "detail": detail}
                elif r == "unknown":
                    yield {"status": "unknown"}
                continue
            r, s = self._check(z3.Not(term))
            if self.cross_check and r in ("sat", "unsat"):
                other = self.cvc5_verdict(z3.Not(term))
                self.cross.append((r, other))
                if other in ("sat", "unsat") and other != r:
                    yield {"status": "unknown", "note": f"solver disagreement: z3 {r}, cvc5 {other}"}
                    continue
            if r == "unsat":
                r2, s2 = self._check()
                yield {"status": "holds", "witness": self._model(s2) if r2 == "sat" else None}
            elif r == "sat":
                yield {"status": "refuted", "inputs": self._model(s), "detail": detail}
            else:
                yield {"status": "unknown"}

    def _model(self, s):
        m = s.model()
        out = {}
        for name, kind, v in self.vars:
            val = m.eval(v, model_completion=True)
            if z3.is_int_value(val):
                out[name] = val.as_long()
            elif z3.is_rational_value(val):
                n, d = val.numerator_as_long(), val.denominator_as_long()
                out[name] = n if d == 1 else {"frac": [n, d]}
            elif z3.is_algebraic_value(val):
                a = val.approx(20)
                out[name] = {"frac": [a.numerator_as_long(), a.denominator_as_long()]}
            else:
                out[name] = str(val)
        return out


class Infeasible(Exception):
    pass


class _PC(list):
    """path condition: a list that mirrors every append into the path's incremental solver"""

    def __init__(self, engine):
        super().__init__()
        self._e = engine

    def append(self, term):
        super().append(term)
        self._e.solver.add(term)


class _ModelHolder:
    def __init__(self, m):
        self._m = m

    def model(self):
        return self._m


def _lift(engine, x):
    if isinstance(x, Sym):
        return x.term
    if isinstance(x, bool):
        return z3.IntVal(int(x))
    if isinstance(x, int):
        return z3.IntVal(x)
    if isinstance(x, Fraction):
        return z3.RealVal(x.numerator) / z3.RealVal(x.denominator) if x.denominator != 1 else z3.RealVal(x.numerator)
    if isinstance(x, float):
        if x != x or x in (math.inf, -math.inf):
            raise NonFinite(x)
        fr = Fraction(x)
        return z3.RealVal(fr.numerator) / z3.RealVal(fr.denominator) if fr.denominator != 1 else z3.RealVal(fr.numerator)
    import numpy as np
    if isinstance(x, np.integer):
        return z3.IntVal(int(x))
    if isinstance(x, np.floating):
        return _lift(engine, float(x))
    raise TypeError(f"cannot lift {type(x)}")


class NonFinite(Exception):
    pass


class Sym:
    """A number whose value is a z3 arithmetic term.  (No __array_priority__: a NumPy object array on the other side of
    an operator must apply it element-wise, which then reaches these methods with scalars.)"""

    def __init__(self, engine, term):
        self.e = engine
        self.term = term

    # arithmetic
    def _bin(self, other, f):
        try:
            o = _lift(self.e, other)
        except TypeError:
            return NotImplemented
        except NonFinite:
            return NotImplemented
        return Sym(self.e, z3.simplify(f(self.term, o)))

    def __add__(self, o): return self._bin(o, lambda a, b: a + b)
    def __radd__(self, o): return self._bin(o, lambda a, b: b + a)
    def __sub__(self, o): return self._bin(o, lambda a, b: a - b)
    def __rsub__(self, o): return self._bin(o, lambda a, b: b - a)
    def __mul__(self, o): return self._bin(o, lambda a, b: a * b)
    def __rmul__(self, o): return self._bin(o, lambda a, b: b * a)
    def __neg__(self): return Sym(self.e, -self.term)
    def __pos__(self): return self
    def __abs__(self): return Sym(self.e, z3.If(self.term >= 0, self.term, -self.term))

    def _div(self, num, den):
        if self.e.decide(den == 0):
            raise SymZeroDivision("division by zero")
        n = z3.ToReal(num) if num.sort() == z3.IntSort() else num
        d = z3.ToReal(den) if den.sort() == z3.IntSort() else den
        return Sym(self.e, z3.simplify(n / d))

    def __truediv__(self, o):
        try:
            return self._div(self.term, _lift(self.e, o))
        except (TypeError, NonFinite):
            return NotImplemented

    def __rtruediv__(self, o):
        try:
            return self._div(_lift(self.e, o), self.term)
        except (TypeError, NonFinite):
            return NotImplemented

    def __pow__(self, o):
        if isinstance(o, int) and not isinstance(o, bool) and 0 <= o <= 12:
            r = z3.IntVal(1) if self.term.sort() == z3.IntSort() else z3.RealVal(1)
            for _ in range(o):
                r = r * self.term
            return Sym(self.e, z3.simplify(r))
        try:
            ot = _lift(self.e, o)
        except (TypeError, NonFinite):
            return NotImplemented
        return self.e_uf("pow", self.term, ot)

    def __rpow__(self, o):
        try:
            return self.e_uf("pow", _lift(self.e, o), self.term)
        except (TypeError, NonFinite):
            return NotImplemented

    def e_uf(self, name, *terms):
        ts = [z3.ToReal(t) if t.sort() == z3.IntSort() else t for t in terms]
        return Sym(self.e, self.e.uf(name, len(ts))(*ts))

    # NumPy object-array ufunc hooks (np.log(obj_array) calls .log() on each element, etc.)
    def log(self): return self.e_uf("log", self.term)
    def sqrt(self): return self.e_uf("pow", self.term, z3.RealVal("1/2"))
    def exp(self): return self.e_uf("exp", self.term)

    def floor(self):
        if self.term.sort() == z3.IntSort():
            return self
        return Sym(self.e, z3.ToReal(z3.ToInt(self.term)))

    def __floor__(self):
        return self.floor()

    # comparisons
    def _cmp(self, other, f):
        if isinstance(other, float) and (other != other or other in (math.inf, -math.inf)):
            return SymBool(self.e, z3.BoolVal(f(0.0, other)))
        try:
            o = _lift(self.e, other)
        except TypeError:
            return NotImplemented
        return SymBool(self.e, f(self.term, o))

    def __lt__(self, o): return self._cmp(o, lambda a, b: a < b)
    def __le__(self, o): return self._cmp(o, lambda a, b: a <= b)
    def __gt__(self, o): return self._cmp(o, lambda a, b: a > b)
    def __ge__(self, o): return self._cmp(o, lambda a, b: a >= b)
    def __eq__(self, o): return self._cmp(o, lambda a, b: a == b)
    def __ne__(self, o): return self._cmp(o, lambda a, b: a != b)
    __hash__ = None

    def __bool__(self):
        return self.e.decide(self.term != 0)

    def __repr__(self):
        return f"Sym({self.term})"


class SymBool:
    def __init__(self, engine, term):
        self.e = engine
        self.term = term

    def __bool__(self):
        return self.e.decide(self.term)

    def __and__(self, o):
        return SymBool(self.e, z3.And(self.term, o.term if isinstance(o, SymBool) else z3.BoolVal(bool(o))))

    def __or__(self, o):
        return SymBool(self.e, z3.Or(self.term, o.term if isinstance(o, SymBool) else z3.BoolVal(bool(o))))

    def __invert__(self):
        return SymBool(self.e, z3.Not(self.term))

    def __repr__(self):
        return f"SymBool({self.term})"


def term_of(engine, x):
    """z3 term of a result value (Sym, python number, Fraction)."""
    return _lift(engine, x)


def is_nan(x):
    return isinstance(x, float) and x != x


def from_model(v):
    """model value (int or {"frac": [n, d]}) -> Fraction"""
    if isinstance(v, dict):
        return Fraction(v["frac"][0], v["frac"][1])
    return Fraction(v)
