"""SMT engine worker: decide ONE condition by fork-on-branch tracing of the real arithmetic + z3.

usage: python -m vlib.smt_worker <harness module> <tier> <condition id> <out.json>"""
import importlib
import json
import os
import sys
import time
import traceback
import warnings

HERE = os.path.dirname(os.path.dirname(os.path.abspath(__file__)))
REPO = os.environ.get("VERIF_REPO", "/repo")
sys.path.insert(0, HERE)
sys.path.insert(0, REPO)
warnings.filterwarnings("ignore")


def main():
    hmod, tier, cid, out = sys.argv[1:5]
    res = {"id": cid, "status": "ERROR", "paths": 0, "queries": 0, "solver_s": 0.0, "cpu_s": 0.0,
           "witnesses": [], "counterexample": None, "functions_encoded": [], "messages": []}
    t0 = time.process_time()
    try:
        import inspect
        import pyrepseq  # noqa
        assert os.path.realpath(pyrepseq.__file__).startswith(os.path.realpath(REPO)), pyrepseq.__file__
        from vlib import smt
        harness = importlib.import_module(hmod)
        cond = {c.id: c for c in harness.conditions(tier)}[cid]
        cond.active_known = set(filter(None, os.environ.get("VERIF_ACTIVE_KNOWN", "").split(",")))
        if cond.setup:
            cond.setup()
        eng = smt.Engine(timeout_ms=int(cond.info.get("query_timeout_ms", 30000)))
        eng.cross_check = tier == "thorough" or os.environ.get("VERIF_CVC5") == "1"
        # measured list of pyrepseq functions executed: a profile hook restricted to REPO files
        encoded = set()
        root = os.path.realpath(os.path.join(REPO, "pyrepseq")) + os.sep

        def prof(frame, event, arg):
            if event == "call":
                fn = frame.f_code.co_filename
                if fn.startswith(root):
                    encoded.add(f"{fn[len(root):]}:{frame.f_code.co_qualname}")
        sys.setprofile(prof)
        holds = unknown = 0
        deadline = time.time() + cond.budget
        status = None
        for rec in eng.explore(cond.body, deadline=deadline):
            res["paths"] += 1
            if rec["status"] == "holds":
                holds += 1
                if rec.get("witness") is not None and len(res["witnesses"]) < 32:
                    res["witnesses"].append(rec["witness"])
            elif rec["status"] == "refuted":
                res["counterexample"] = {"inputs": rec["inputs"], "detail": rec.get("detail")}
                status = "REFUTED"
                break
            elif rec["status"] == "unknown":
                unknown += 1
            elif rec["status"] == "budget":
                status = "INCONCLUSIVE"
                res["messages"].append("budget exhausted")
                res["paths"] -= 1
                break
        sys.setprofile(None)
        if status is None:
            if unknown or eng.unknowns:
                status = "INCONCLUSIVE"
                res["messages"].append(f"{unknown} path(s) with solver verdict unknown, {eng.unknowns} unknown feasibility checks")
            elif holds == 0:
                status = "INCONCLUSIVE"
                res["messages"].append("vacuous: no feasible path reached the assertion")
            else:
                status = "CONFIRMED"
        res["status"] = status
        res["reached"] = holds + (1 if status == "REFUTED" else 0)
        res["queries"], res["solver_s"] = eng.queries, round(eng.solver_s, 3)
        res["functions_encoded"] = sorted(encoded)
        res["axioms"] = eng.axiom_notes
        if eng.cross:
            agree = sum(1 for a, b in eng.cross if a == b)
            res["cvc5_cross_check"] = {"queries": len(eng.cross), "agree": agree,
                                       "cvc5_inconclusive": sum(1 for a, b in eng.cross if b not in ("sat", "unsat")),
                                       "disagree": sum(1 for a, b in eng.cross if b in ("sat", "unsat") and a != b)}
            res["messages"].append(f"cvc5 cross-check: {agree}/{len(eng.cross)} final queries agree")
        res["messages"].append(f"{holds} paths: all queries unsat" if status == "CONFIRMED" else "")
    except BaseException as e:  # noqa
        res["status"] = "ERROR"
        res["messages"].append("worker exception: " + "".join(traceback.format_exception(e))[-3000:])
    res["cpu_s"] = round(time.process_time() - t0, 2)
    with open(out, "w") as f:
        json.dump(res, f)


if __name__ == "__main__":
    main()
