"""Fork-free boolean/arithmetic combinators over CrossHair symbolic atoms (or concrete values).

Python's `and` / `or` / `min` / `if` on symbolic values fork the path; these helpers instead build
one z3 term, so that an assertion over many sub-conditions becomes a single solver query."""
import z3
from crosshair.libimpl.builtinslib import SymbolicBool, SymbolicInt, RealBasedSymbolicFloat
from crosshair.tracers import NoTracing


def _z(x):
    """z3 term (or python constant) of a value."""
    if hasattr(x, "var"):
        return x.var
    if isinstance(x, (bool, int)):
        return x
    if isinstance(x, float):
        if x != x or x in (float("inf"), float("-inf")):
            raise ValueError("non-finite float in symbolic arithmetic")
        return z3.RealVal(repr(x)) if not x.is_integer() else z3.RealVal(int(x))
    if isinstance(x, z3.ExprRef):
        return x
    raise TypeError(f"not an atom: {type(x)}")


def _wrap_bool(e):
    if isinstance(e, bool):
        return e
    e = z3.simplify(e)
    if z3.is_true(e):
        return True
    if z3.is_false(e):
        return False
    return SymbolicBool(e)


def _wrap_num(e):
    if isinstance(e, (int, float)) and not isinstance(e, bool):
        return e
    if e.sort() == z3.IntSort():
        return SymbolicInt(e)
    return RealBasedSymbolicFloat(e, float)


def b_and(*xs):
    with NoTracing():
        zs = []
        for x in xs:
            v = _z(x)
            if v is False:
                return False
            if v is True:
                continue
            zs.append(v)
        if not zs:
            return True
        return _wrap_bool(z3.And(*zs) if len(zs) > 1 else zs[0])


def b_or(*xs):
    with NoTracing():
        zs = []
        for x in xs:
            v = _z(x)
            if v is True:
                return True
            if v is False:
                continue
            zs.append(v)
        if not zs:
            return False
        return _wrap_bool(z3.Or(*zs) if len(zs) > 1 else zs[0])


def b_not(x):
    with NoTracing():
        v = _z(x)
        if isinstance(v, bool):
            return not v
        return _wrap_bool(z3.Not(v))


def b_iff(x, y):
    with NoTracing():
        a, b = _z(x), _z(y)
        if isinstance(a, bool) and isinstance(b, bool):
            return a == b
        if isinstance(a, bool):
            return _wrap_bool(b if a else z3.Not(b))
        if isinstance(b, bool):
            return _wrap_bool(a if b else z3.Not(a))
        return _wrap_bool(a == b)


def b_implies(x, y):
    return b_or(b_not(x), y)


def _cmp(op, x, y):
    with NoTracing():
        a, b = _z(x), _z(y)
        if not isinstance(a, z3.ExprRef) and not isinstance(b, z3.ExprRef):
            return op(a, b)
        return _wrap_bool(op(a, b))


def eq(x, y):
    return _cmp(lambda a, b: a == b, x, y)


def ne(x, y):
    return _cmp(lambda a, b: a != b, x, y)


def le(x, y):
    return _cmp(lambda a, b: a <= b, x, y)


def lt(x, y):
    return _cmp(lambda a, b: a < b, x, y)


def ge(x, y):
    return le(y, x)


def gt(x, y):
    return lt(y, x)


def ite(c, x, y):
    with NoTracing():
        cv = _z(c)
        if isinstance(cv, bool):
            return x if cv else y
        a, b = _z(x), _z(y)
        if isinstance(a, bool) or (isinstance(a, z3.ExprRef) and z3.is_bool(a)):
            a = z3.BoolVal(a) if isinstance(a, bool) else a
            b = z3.BoolVal(b) if isinstance(b, bool) else b
            return _wrap_bool(z3.If(cv, a, b))
        if not isinstance(a, z3.ExprRef):
            a = z3.IntVal(a) if isinstance(a, int) else z3.RealVal(repr(a))
        if not isinstance(b, z3.ExprRef):
            b = z3.IntVal(b) if isinstance(b, int) else z3.RealVal(repr(b))
        if a.sort() != b.sort():
            a = z3.ToReal(a) if a.sort() == z3.IntSort() else a
            b = z3.ToReal(b) if b.sort() == z3.IntSort() else b
        return _wrap_num(z3.If(cv, a, b))


def add(x, y):
    with NoTracing():
        a, b = _z(x), _z(y)
        if not isinstance(a, z3.ExprRef) and not isinstance(b, z3.ExprRef):
            return a + b
        return _wrap_num(z3.simplify(a + b))


def mul(x, y):
    with NoTracing():
        a, b = _z(x), _z(y)
        if not isinstance(a, z3.ExprRef) and not isinstance(b, z3.ExprRef):
            return a * b
        return _wrap_num(z3.simplify(a * b))


def smin(*xs):
    r = xs[0]
    for x in xs[1:]:
        r = ite(le(r, x), r, x)
    return r


def total(xs):
    r = 0
    for x in xs:
        r = add(r, x)
    return r


def count_true(bs):
    return total([ite(b, 1, 0) for b in bs])


def is_symbolic(x):
    return hasattr(x, "var")


def sub(x, y):
    return add(x, mul(-1, y))


def close(x, y, tol=1e-9):
    """|x - y| <= tol: equality of a float result with its exact (real) closed form up to rounding."""
    d = sub(x, y)
    return b_and(le(d, tol), le(mul(-1, d), tol))
