"""Re-execute concrete inputs against the REAL, unmodelled stack (no CrossHair tracing, no rebinding).

usage: python -m vlib.replay <harness module> <tier> <jobs.json> <out.json>
jobs: [{"cond": id, "inputs": {...}}]  ->  [{"ok": bool, "detail": str}]"""
import importlib
import json
import os
import sys
import traceback
import warnings

HERE = os.path.dirname(os.path.dirname(os.path.abspath(__file__)))
REPO = os.environ.get("VERIF_REPO", "/repo")
sys.path.insert(0, HERE)
sys.path.insert(0, REPO)
warnings.filterwarnings("ignore")


def run(hmod, tier, jobs):
    harness = importlib.import_module(hmod)
    try:
        conds = {c.id: c for c in harness.conditions("thorough")}
    except Exception:  # noqa
        conds = {}
    conds.update({c.id: c for c in harness.conditions(tier)})
    out = []
    for job in jobs:
        try:
            cond = conds[job["cond"]]
            ok, detail = cond.replay(job["inputs"])
            out.append({"ok": bool(ok), "detail": str(detail)[:2000]})
        except Exception as e:  # the real code raised where the oracle expects a value
            tb = traceback.extract_tb(e.__traceback__)
            where = "; ".join(f"{f.filename.rsplit('/', 1)[-1]}:{f.lineno}" for f in tb[-3:])
            out.append({"ok": False, "detail": f"raised {type(e).__name__}: {str(e)[:300]} @ {where}",
                        "raised": type(e).__name__})
    return out


def main():
    hmod, tier, jobs_file, out_file = sys.argv[1:5]
    import pyrepseq
    assert os.path.realpath(pyrepseq.__file__).startswith(os.path.realpath(REPO)), pyrepseq.__file__
    jobs = json.load(open(jobs_file))
    out = run(hmod, tier, jobs)
    json.dump(out, open(out_file, "w"))


if __name__ == "__main__":
    main()
