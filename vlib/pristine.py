"""Fresh-interpreter state of pyrepseq without starting an interpreter.

snapshot(): deep copies of every module-level and class-level plain container (dict / list / set) of every loaded pyrepseq module, plus the
attribute names present.  restore(): puts them back, deletes module / class attributes created since, clears functools caches.

The XH worker restores this state at the START OF EVERY PATH: paths of one worker share a process, and a change to pyrepseq that keeps state
between calls (a memo, a class-level dict, an lru_cache) would otherwise leak symbolic values from one path into the next (CrossHair then aborts
with NotDeterministic) - with the restore every path starts where a fresh interpreter would."""
import copy
import sys
import types

SNAP = {}


def modules():
    return [m for n, m in list(sys.modules.items()) if m is not None and (n == "pyrepseq" or n.startswith("pyrepseq."))]


def classes():
    seen = []
    for mod in modules():
        for v in list(vars(mod).values()):
            if isinstance(v, type) and str(getattr(v, "__module__", "")).startswith("pyrepseq") and v not in seen:
                seen.append(v)
    return seen


def snapshot():
    snap = {}
    for mod in modules():
        names = set(vars(mod))
        for k, v in list(vars(mod).items()):
            if k.startswith("__"):
                continue
            if type(v) in (dict, list, set):
                try:
                    snap[(mod.__name__, k)] = copy.deepcopy(v)
                except Exception:  # noqa
                    pass
        snap[(mod.__name__, "__names__")] = names
    csnap = {}
    for cls in classes():
        vals = {}
        for k, v in vars(cls).items():
            if type(v) in (dict, list, set):
                try:
                    vals[k] = copy.deepcopy(v)
                except Exception:  # noqa
                    pass
        csnap[cls] = (set(vars(cls)), vals)
    snap[("__classes__", "")] = csnap
    SNAP.clear()
    SNAP.update(snap)
    return snap


def clear_function_caches():
    for holder in modules() + classes():
        for v in list(vars(holder).values()):
            f = getattr(v, "__func__", v)
            clear = getattr(f, "cache_clear", None)
            if callable(clear):
                try:
                    clear()
                except Exception:  # noqa
                    pass


def restore(snap=None):
    snap = SNAP if snap is None else snap
    if not snap:
        return
    for mod in modules():
        names0 = snap.get((mod.__name__, "__names__"))
        if names0 is None:
            continue
        for k in list(vars(mod)):
            v = vars(mod)[k]
            if k not in names0 and not isinstance(v, (types.ModuleType, types.FunctionType, type)):
                try:
                    delattr(mod, k)                       # state created at run time (e.g. nn._cal_params)
                except Exception:  # noqa
                    pass
        for (mname, k), v in snap.items():
            if mname == mod.__name__ and k != "__names__":
                setattr(mod, k, copy.deepcopy(v))
    for cls, (names0, vals) in snap.get(("__classes__", ""), {}).items():
        for k in list(vars(cls)):
            if k not in names0:
                try:
                    delattr(cls, k)                   # class attribute created at run time
                except Exception:  # noqa
                    pass
        for k, v in vals.items():
            setattr(cls, k, copy.deepcopy(v))
    clear_function_caches()
