"""Small corrections to CrossHair 0.0.110 behaviour that the checks rely on (part of the trusted base).

1. Comparing a real-based symbolic float (or symbolic int) with a NON-FINITE concrete float (pyrepseq's default
   max_custom_distance=float('inf'), np.inf for unequal-length Hamming) raises `Z3Exception: sort mismatch` in
   CrossHair's float/KindedFloat handler.  Real-based symbolics are finite by construction, so the comparison
   has a fixed answer: that of any finite number against the non-finite operand.
"""
import math
import operator

from crosshair.libimpl import builtinslib as bl
from crosshair.tracers import NoTracing
from crosshair.util import CrossHairValue


def _nonfinite(x):
    return type(x) is float and (x != x or x in (math.inf, -math.inf))


def _wrap(cls, name, op):
    orig = getattr(cls, name)

    def patched(self, other):
        with NoTracing():
            nf = _nonfinite(other)
        if nf:
            return op(0.0, other)
        return orig(self, other)

    patched.__name__ = name
    setattr(cls, name, patched)


def install():
    # 2. CrossHair forks between an IEEE (bit-precise) and a real-based representation of floats per path and
    #    promotes float literals with the chosen one.  Our symbolic reals are always real-based ("reals stand in for
    #    floats" is a stated assumption), so the representation is pinned - otherwise literals are promoted to the
    #    FP sort and meet a Real-sorted variable (Z3Exception: sort mismatch).
    orig_get = bl.ModelingDirector.get

    def get(self, typ):
        if typ is float:
            return bl.RealBasedSymbolicFloat
        return orig_get(self, typ)

    bl.ModelingDirector.get = get

    # 3. int(<real-based symbolic float>) realises its argument in CrossHair's int() patch although the class has an
    #    exact symbolic __int__ (truncation toward zero via ToInt); route it there (pyrepseq: int(len(seqs) / n_cpu)).
    import crosshair.core as core
    from crosshair.core_and_libs import _make_registrations
    if not core._PATCH_REGISTRATIONS:
        _make_registrations()
    orig_int = core._PATCH_REGISTRATIONS[int]

    def patched_int(val=0, *a, **kw):
        with NoTracing():
            is_real = isinstance(val, bl.RealBasedSymbolicFloat) and not a and not kw
            concrete = not any(isinstance(x, CrossHairValue) for x in (val,) + a + tuple(kw.values()))
        if is_real:
            return val.__int__()
        if concrete:
            return int(val, *a, **kw)      # caller is the override itself -> dispatched to the real int
        return orig_int(val, *a, **kw)

    core._PATCH_REGISTRATIONS[int] = patched_int
    for cls in (bl.RealBasedSymbolicFloat, bl.SymbolicInt):
        for name, op in (("__lt__", operator.lt), ("__le__", operator.le), ("__gt__", operator.gt),
                         ("__ge__", operator.ge), ("__eq__", operator.eq), ("__ne__", operator.ne)):
            _wrap(cls, name, op)
