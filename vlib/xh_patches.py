"""Small corrections to CrossHair 0.0.110 behaviour that the checks rely on (part of the trusted base).

1. Comparing a real-based symbolic float (or symbolic int) with a NON-FINITE concrete float (pyrepseq's default
   max_custom_distance=float('inf'), np.inf for unequal-length Hamming) raises `Z3Exception: sort mismatch` in
   CrossHair's float/KindedFloat handler.  Real-based symbolics are finite by construction, so the comparison
   has a fixed answer: that of any finite number against the non-finite operand.
"""
import math
import operator

from crosshair.libimpl import builtinslib as bl
from crosshair.tracers import NoTracing


def _nonfinite(x):
    return type(x) is float and (x != x or x in (math.inf, -math.inf))


def _wrap(cls, name, op):
    orig = getattr(cls, name)

    def patched(self, other):
        with NoTracing():
            nf = _nonfinite(other)
        if nf:
            return op(0.0, other)
        return orig(self, other)

    patched.__name__ = name
    setattr(cls, name, patched)


def install():
    # 2. CrossHair forks between an IEEE (bit-precise) and a real-based representation of floats per path and
    #    promotes float literals with the chosen one.  Our symbolic reals are always real-based ("reals stand in for
    #    floats" is a stated assumption), so the representation is pinned - otherwise literals are promoted to the
    #    FP sort and meet a Real-sorted variable (Z3Exception: sort mismatch).
    orig_get = bl.ModelingDirector.get

    def get(self, typ):
        if typ is float:
            return bl.RealBasedSymbolicFloat
        return orig_get(self, typ)

    bl.ModelingDirector.get = get
    for cls in (bl.RealBasedSymbolicFloat, bl.SymbolicInt):
        for name, op in (("__lt__", operator.lt), ("__le__", operator.le), ("__gt__", operator.gt),
                         ("__ge__", operator.ge), ("__eq__", operator.eq), ("__ne__", operator.ne)):
            _wrap(cls, name, op)
