import json
import os

HERE = os.path.dirname(os.path.dirname(os.path.abspath(__file__)))


def _cvc5_version():
    try:
        import cvc5
        return getattr(cvc5, "__version__", "present")
    except Exception:  # noqa
        return None


def write(pid, tier, seed, harness, conds, results, violations, harness_errors, kf_lines, validated, wall, conf=None, corpus_replayed=0):
    import z3
    probes = [c for c in conds if c.engine == "PROBE"]
    conds = [c for c in conds if c.engine != "PROBE"]
    rs = [results[c.id] for c in conds]
    samples = []
    for c in conds:
        r = results[c.id]
        for w in r.get("witnesses", [])[:2]:
            samples.append({"condition": c.id, "inputs": w, "verdict_on_path": "assertion holds"})
        if len(samples) >= 40:
            break
    for v in violations[:10]:
        samples.append({"condition": v["cond"], "inputs": v["inputs"], "verdict_on_path": "VIOLATION: " + v["detail"]})
    if not samples:
        samples = [{"condition": c.id, "note": "no witness captured"} for c in conds[:1]]
    enc = sorted({f for r in rs for f in r.get("functions_encoded", [])})
    confirmed = sum(1 for r in rs if r["status"] == "CONFIRMED")
    cov = {
        "states": max(1, sum(int(r["paths"]) for r in rs)),
        "transitions": max(1, sum(int(r["queries"]) for r in rs)),
        "traces_validated_against_impl": int(validated) + int(corpus_replayed),
        "corpus_witnesses_replayed": int(corpus_replayed),
        "samples": samples,
        "exhaustive": bool(rs) and confirmed == len(rs) and (conf or {}).get("ok") is not False,
        "model_conformance": conf or {"ok": None},
        "explanation": "states = execution paths of the real pyrepseq code explored symbolically (each path = one "
                       "equivalence class of inputs); transitions = SMT queries discharged; "
                       "traces_validated = solver-produced witnesses re-executed on the real, unmodelled stack "
                       "against an independent concrete oracle (this run's witnesses + the committed corpus of witnesses "
                       "the solver produced on the unchanged tree, corpus/<id>.json)",
        "functions_encoded": enc,
        "bounds": getattr(harness, "BOUNDS", ""),
        "outside_bounds": getattr(harness, "OUTSIDE", []),
        "conditions_total": len(rs),
        "conditions_confirmed": confirmed,
        "conditions_refuted": sum(1 for r in rs if r["status"] == "REFUTED"),
        "conditions_inconclusive": sum(1 for r in rs if r["status"] in ("INCONCLUSIVE", "ERROR")),
        "solver_time_s": round(sum(float(r["solver_s"]) for r in rs), 2),
        "cpu_time_s": round(sum(float(r["cpu_s"]) for r in rs), 1),
        "conditions": [{"id": c.id, "engine": c.engine, "status": results[c.id]["status"], "bounds": c.bounds,
                        "paths": results[c.id]["paths"], "queries": results[c.id]["queries"],
                        "solver_s": results[c.id]["solver_s"], "cpu_s": results[c.id]["cpu_s"],
                        "reached_assertion": results[c.id].get("reached"),
                        "note": "; ".join(results[c.id]["messages"])[-300:] if results[c.id]["status"] not in ("CONFIRMED",) else ""}
                       for c in conds],
        "models_used": sorted({m for c in conds for m in c.models}),
        "unmodelled_library_names_touched": sorted({f for r in rs for f in r.get("fallthrough", [])}),
        "concrete_probes": [{"id": c.id, "what": c.bounds, "result": "passed" if results[c.id]["status"] == "PROBE" else "FAILED",
                             "note": "real library stack at a scale outside every symbolic bound; not a solver verdict"} for c in probes],
        "library_calls_lifted_to_real_library": sorted({f for r in rs for f in r.get("lifted", [])}),
        "known_findings_reported": kf_lines,
        "harness_errors": harness_errors,
        "solver_versions": {"z3": z3.get_version_string(), "cvc5": _cvc5_version()},
        "cvc5_cross_check": {"queries": sum(r.get("cvc5_cross_check", {}).get("queries", 0) for r in rs),
                             "agree": sum(r.get("cvc5_cross_check", {}).get("agree", 0) for r in rs),
                             "cvc5_inconclusive": sum(r.get("cvc5_cross_check", {}).get("cvc5_inconclusive", 0) for r in rs),
                             "disagree": sum(r.get("cvc5_cross_check", {}).get("disagree", 0) for r in rs)},
    }
    ev = {
        "property_id": pid,
        "tier": tier,
        "seed": int(seed),
        "level": "model_checking",
        "coverage": cov,
        "assumptions": list(getattr(harness, "ASSUMPTIONS", [])),
        "wall_s": round(wall, 1),
        "violations": len(violations),
    }
    os.makedirs(os.path.join(HERE, "evidence"), exist_ok=True)
    path = os.path.join(HERE, "evidence", f"{pid}.json")
    tmp = path + ".tmp"
    json.dump(ev, open(tmp, "w"), indent=1)
    os.replace(tmp, path)
