"""XH engine worker: decide ONE condition by path-wise symbolic execution of the real code.

usage: python -m vlib.xh_worker <harness module> <tier> <condition id> <out.json>"""
import collections
import importlib
import json
import os
import random
import sys
import time
import traceback

HERE = os.path.dirname(os.path.dirname(os.path.abspath(__file__)))
REPO = os.environ.get("VERIF_REPO", "/repo")
sys.path.insert(0, HERE)
sys.path.insert(0, REPO)
sys.setrecursionlimit(10000)
import warnings
warnings.filterwarnings("ignore")


def main():
    hmod, tier, cid, out = sys.argv[1:5]
    res = {"id": cid, "status": "ERROR", "paths": 0, "queries": 0, "solver_s": 0.0, "cpu_s": 0.0,
           "witnesses": [], "counterexample": None, "functions_encoded": [], "messages": []}
    t0 = time.process_time()
    try:
        import z3
        nchk = [0, 0.0]
        orig_check = z3.Solver.check

        def counted_check(self, *a):
            t = time.perf_counter()
            r = orig_check(self, *a)
            nchk[0] += 1
            nchk[1] += time.perf_counter() - t
            return r

        z3.Solver.check = counted_check

        from crosshair.core_and_libs import analyze_function, run_checkables, MessageType
        from crosshair.options import AnalysisKind, AnalysisOptionSet
        import crosshair.statespace as ss
        from vlib import plugin, xh_state, entry, xh_patches
        xh_patches.install()
        from vlib.xh_state import STATE

        # Reals stand in for floats (stated assumption of every check that meets a float): CrossHair
        # caps such runs at 'unknown'; we lift the cap and count how often a real-based float was made.
        realfloat = [0]

        def _no_cap(self):
            realfloat[0] += 1

        ss.StateSpace.cap_result_at_unknown = _no_cap
        seed = int(os.environ.get("VERIF_SEED", "0") or 0)
        if seed:
            ss.newrandom = lambda: random.Random(1801 + seed)  # upstream: fixed constant
        STATE.rng = random.Random(seed)

        import pyrepseq  # noqa: F401  (the real package from REPO's working tree)
        assert os.path.realpath(pyrepseq.__file__).startswith(os.path.realpath(REPO)), pyrepseq.__file__
        plugin.set_targets([os.path.join(REPO, "pyrepseq")])
        plugin.install(record=os.environ.get("VERIF_NOREC") != "1")

        harness = importlib.import_module(hmod)
        conds = {c.id: c for c in harness.conditions(tier)}
        cond = conds[cid]
        active_known = set(filter(None, os.environ.get("VERIF_ACTIVE_KNOWN", "").split(",")))
        cond.active_known = active_known
        from models import install as minstall
        fallthrough = set()
        rebound = minstall.install(cond.models, fallthrough, STATE)
        if cond.setup:
            cond.setup()
        STATE.cond = cond
        # every path starts from the state a fresh interpreter would have (see vlib/pristine.py)
        from vlib import pristine
        pristine.snapshot()
        STATE.path_hooks.insert(0, pristine.restore)

        stats = collections.Counter()
        opts = AnalysisOptionSet(
            per_condition_timeout=float(cond.budget),
            per_path_timeout=float(cond.budget),
            max_uninteresting_iterations=sys.maxsize,
            analysis_kind=[AnalysisKind.PEP316],
            report_all=True,
            stats=stats,
        )
        checkables = analyze_function(entry.entry, opts)
        msgs = run_checkables(checkables)
        states = [m.state for m in msgs]
        res["messages"] = [f"{m.state.name}: {m.message[:400]}" for m in msgs]
        if STATE.counterexample is not None and any(s in (MessageType.POST_FAIL,) for s in states):
            res["status"] = "REFUTED"
        elif states and all(s == MessageType.CONFIRMED for s in states):
            res["status"] = "CONFIRMED"
        elif any(s in (MessageType.POST_ERR, MessageType.EXEC_ERR, MessageType.SYNTAX_ERR,
                       MessageType.IMPORT_ERR) for s in states):
            res["status"] = "ERROR"
        else:
            res["status"] = "INCONCLUSIVE"
        if res["status"] == "INCONCLUSIVE" and STATE.counterexample is not None and STATE.counterexample.get("inputs") is not None:
            # the assertion failed on some path whose feasibility CrossHair could not settle (approximated string / float operations):
            # not a verdict - the recorded assignment is handed to the real-stack replay, which alone can turn it into a violation
            res["candidate"] = True
            res["messages"].append("assertion failed on a path CrossHair could not confirm; candidate inputs handed to the real-stack replay")
        if STATE.reached == 0 and res["status"] == "CONFIRMED":
            res["status"] = "INCONCLUSIVE"
            res["messages"].append("vacuous: no path reached the assertion")
        res["paths"] = int(stats.get("num_paths", 0)) or STATE.paths
        res["reached"] = STATE.reached
        res["queries"], res["solver_s"] = nchk[0], round(nchk[1], 3)
        res["witnesses"] = STATE.witnesses
        res["counterexample"] = STATE.counterexample
        res["functions_encoded"] = sorted(f"{f}:{q}" for f, q in plugin.ENCODED)
        res["fallthrough"] = sorted(fallthrough)
        try:
            from models import np_model as _npm
            res["lifted"] = sorted(set(_npm.LIFTED))
        except Exception:  # noqa
            res["lifted"] = []
        res["rebound"] = len(rebound)
        res["real_for_float_values"] = realfloat[0]
    except BaseException as e:  # noqa
        res["status"] = "ERROR"
        res["messages"].append("worker exception: " + "".join(traceback.format_exception(e))[-3000:])
    res["cpu_s"] = round(time.process_time() - t0, 2)
    with open(out, "w") as f:
        json.dump(res, f)


if __name__ == "__main__":
    main()
