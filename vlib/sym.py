"""Symbolic input factories used inside harness bodies (under the CrossHair tracer) and model
extraction (turning the solver's current model into concrete inputs) without touching the
search tree (no realisation => exhaustiveness bookkeeping stays intact)."""
import z3
from crosshair.libimpl.builtinslib import (
    RealBasedSymbolicFloat,
    SymbolicBool,
    SymbolicInt,
)
from crosshair.statespace import context_statespace
from crosshair.tracers import NoTracing, ResumedTracing

_REG = []  # [(name, kind, payload)] for the current path


def begin_path():
    del _REG[:]


def _uniq(space, name):
    return name + space.uniq()


def sym_int(name, lo=None, hi=None, register=True):
    with NoTracing():
        space = context_statespace()
        x = SymbolicInt(_uniq(space, name))
        if lo is not None:
            space.add(x.var >= lo)
        if hi is not None:
            space.add(x.var <= hi)
        if register:
            _REG.append((name, "int", x))
    return x


def sym_bool(name, register=True):
    with NoTracing():
        space = context_statespace()
        x = SymbolicBool(_uniq(space, name))
        if register:
            _REG.append((name, "bool", x))
    return x


def sym_real(name, lo=None, hi=None, register=True):
    """A finite real standing in for a float (rounding is outside every claim that uses it)."""
    with NoTracing():
        space = context_statespace()
        x = RealBasedSymbolicFloat(_uniq(space, name), float)
        if lo is not None:
            space.add(x.var >= lo)
        if hi is not None:
            space.add(x.var <= hi)
        if register:
            _REG.append((name, "real", x))
    return x


def assume(cond):
    """Add a constraint to the current path without forking. `cond` must be a symbolic bool
    (built from symbolic operands) or a concrete bool."""
    from crosshair.util import IgnoreAttempt

    with NoTracing():
        if isinstance(cond, bool):
            if not cond:
                raise IgnoreAttempt("assumption is concretely false")
            return
        space = context_statespace()
        var = cond.var if hasattr(cond, "var") else cond
        if not space.is_possible(var):
            raise IgnoreAttempt("assumption infeasible")
        space.add(var)


UNICODE_MAX = 0x10FFFF


def sym_codepoints(name, n, lo=0, hi=UNICODE_MAX, among=None):
    """n symbolic code points; `among` (a string) restricts each to that set of characters
    through a solver constraint (no forking)."""
    cps = []
    for i in range(n):
        c = sym_int(f"{name}_{i}", register=False)
        with NoTracing():
            space = context_statespace()
            if among is not None:
                space.add(z3.Or(*[c.var == ord(ch) for ch in among]))
            else:
                space.add(z3.And(c.var >= lo, c.var <= hi))
        cps.append(c)
    return cps


def sym_str(name, n, lo=0, hi=UNICODE_MAX, among=None):
    """A string of concrete length n with free content."""
    cps = sym_codepoints(name, n, lo, hi, among)
    s = ""
    for c in cps:
        s = s + chr(c)
    with NoTracing():
        _REG.append((name, "str", cps))
    return s


def register(name, kind, payload):
    with NoTracing():
        _REG.append((name, kind, payload))


def _val(model, v):
    r = model.eval(v, model_completion=True)
    if z3.is_int_value(r):
        return r.as_long()
    if z3.is_rational_value(r):
        n, d = r.numerator_as_long(), r.denominator_as_long()
        return n if d == 1 else {"frac": [n, d]}
    if z3.is_true(r):
        return True
    if z3.is_false(r):
        return False
    if z3.is_algebraic_value(r):
        a = r.approx(20)
        return {"frac": [a.numerator_as_long(), a.denominator_as_long()]}
    raise ValueError(f"cannot read model value {r!r}")


def snapshot():
    """Concrete values of all registered inputs under one model of the current path condition.
    Returns None if the solver cannot produce a model (never forks, never adds constraints)."""
    with NoTracing():
        space = context_statespace()
        solver = space.solver
        if str(solver.check()) != "sat":
            return None
        model = solver.model()
        out = {}
        for name, kind, payload in _REG:
            if kind == "str":
                out[name] = "".join(chr(_val(model, c.var)) for c in payload)
            elif kind in ("int", "bool", "real"):
                out[name] = _val(model, payload.var)
            elif kind == "const":
                out[name] = payload
            elif kind == "ints":
                out[name] = [_val(model, c.var) if hasattr(c, "var") else c for c in payload]
            else:
                raise ValueError(kind)
        return out
