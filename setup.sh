#!/bin/sh
# Offline overlay venv: /venv's site-packages (pyrepseq deps) + crosshair-tool/z3/cvc5 from the wheelhouse.
set -e
cd "$(dirname "$0")"
V=.venv
if [ -x "$V/bin/python" ] && "$V/bin/python" -c "import crosshair, z3, numpy, pandas" 2>/dev/null; then
  exit 0
fi
rm -rf "$V"
/venv/bin/python -m venv "$V"
SP=$("$V/bin/python" -c "import sysconfig; print(sysconfig.get_paths()['purelib'])")
printf "import site; site.addsitedir('/venv/lib/python3.12/site-packages')\n" > "$SP/_verif_overlay.pth"
PIP_NO_INDEX=1 "$V/bin/pip" install -q --no-index --find-links /opt/veriftools/wheels crosshair-tool z3-solver cvc5 jsonschema >/dev/null
"$V/bin/python" -c "import crosshair, z3, numpy, pandas; print('verif venv ok', z3.get_version_string())"
