"""Call recorders standing in for matplotlib / seaborn / logomaker drawing calls.

Nothing is rendered.  What a property may rely on is the DATA handed to the drawing primitives, so every call is
recorded with its arguments; palette functions follow their documented contract (n pairwise distinct colours)."""
from vlib.rebind import ModuleProxy

CALLS = []     # (name, args, kwargs) in call order; reset per path


def reset():
    del CALLS[:]


class Recorder:
    def __init__(self, name):
        object.__setattr__(self, "_name", name)

    def __getattr__(self, attr):
        if attr.startswith("__"):
            raise AttributeError(attr)
        return Recorder(f"{self._name}.{attr}")

    def __call__(self, *a, **kw):
        CALLS.append((self._name, a, dict(kw)))
        return Recorder(f"{self._name}()")

    def __getitem__(self, k):
        return Recorder(f"{self._name}[{k!r}]")

    def __iter__(self):
        return iter([Recorder(f"{self._name}[{i}]") for i in range(3)])

    def __setattr__(self, k, v):
        CALLS.append((f"{self._name}.{k}=", (v,), {}))

    def __bool__(self):
        return True

    def __repr__(self):
        return f"<rec {self._name}>"


class CMap:
    N = 3

    def __init__(self, name="viridis", colors=None):
        self.name, self.colors = name, colors

    def __call__(self, i):
        return (self.name, i)


TAB20 = tuple((i / 20.0, 0.5, 0.25) for i in range(20))


def cycler(**kw):
    (key, values), = kw.items()
    values = list(values)

    def infinite():
        def gen():
            i = 0
            while True:
                yield {key: values[i % len(values)]}
                i += 1
        return gen()
    return infinite


def hls_palette(n_colors=6, h=0.01, l=0.6, s=0.65, as_cmap=False):
    """seaborn.hls_palette contract: n evenly spaced, pairwise distinct colours"""
    return [("hls", i, int(n_colors), l, s) for i in range(int(n_colors))]


class _NS:
    def __init__(self, **kw):
        self.__dict__.update(kw)


def mapping(names, log, state):
    import matplotlib as mpl
    import matplotlib.pyplot as plt
    import seaborn as sns
    m = []
    plt_p = ModuleProxy(plt, {"gca": Recorder("ax"), "subplots": lambda *a, **k: (Recorder("fig"), Recorder("ax")),
                              "cm": _NS(viridis=CMap(), tab20=_NS(colors=TAB20)), "cycler": cycler, "colorbar": Recorder("plt.colorbar"),
                              "setp": Recorder("plt.setp"), "Figure": plt.Figure}, log)
    mpl_p = ModuleProxy(mpl, {"colors": _NS(BoundaryNorm=lambda bounds, n, **k: ("BoundaryNorm", bounds, n),
                                            LinearSegmentedColormap=_NS(from_list=lambda name, colors, N=256, **k: CMap(name, list(colors))))}, log)
    sns_p = ModuleProxy(sns, {"hls_palette": hls_palette}, log)
    m += [(plt, plt_p), (mpl, mpl_p), (sns, sns_p)]
    if state is not None:
        state.path_hooks.append(reset)
    return m
