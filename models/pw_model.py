"""Stand-ins for the optional pwseqdist package (absent from the sandbox).

Symbolic side: apply_pairwise_sparse(metric, seqs, pairs, **kw) returns ONE FRESH SYMBOLIC non-negative integer per unordered pair of
positions (symmetric, memoised) - i.e. an arbitrary CDR3 distance.  The keyword arguments pyrepseq forwards are recorded.
Concrete side (replays on the real stack): a small deterministic gap-aligned mismatch count scaled by dist_weight; the replay oracle uses
the same function, so only pyrepseq's own plumbing is judged."""
CALLS = []
VALUES = {}


def reset():
    del CALLS[:]
    VALUES.clear()


class _Metrics:
    nb_vector_tcrdist = "nb_vector_tcrdist"


class SymbolicPw:
    metrics = _Metrics()

    @staticmethod
    def apply_pairwise_sparse(metric=None, seqs=None, pairs=None, **kw):
        from models.np_model import NDArray, _as_list
        from vlib import sym
        CALLS.append({"metric": metric, "n": len(seqs), "kw": dict(kw), "seqs": seqs})
        tag = len([c for c in CALLS])          # one family of values per call (alpha / beta chain)
        out = []
        rows = pairs.tolist() if hasattr(pairs, "tolist") else list(pairs)
        for p in rows:
            i, j = int(p[0]), int(p[1])
            key = (tag, min(i, j), max(i, j))
            if key not in VALUES:
                VALUES[key] = 0 if i == j else sym.sym_int(f"pw{tag}_{key[1]}_{key[2]}", 0, 60)
            out.append(VALUES[key])
        return NDArray(out, (len(out),), None)


class ConcretePw:
    """deterministic stand-in used on the real stack"""
    metrics = _Metrics()
    calls = []

    @staticmethod
    def dist(a, b, ntrim=3, ctrim=2, dist_weight=3, gap_penalty=12, **kw):
        a, b = a[ntrim:len(a) - ctrim], b[ntrim:len(b) - ctrim]
        if len(a) > len(b):
            a, b = b, a
        gaps = len(b) - len(a)
        best = None
        for pos in range(len(a) + 1):
            padded = a[:pos] + "-" * gaps + a[pos:]
            mism = sum(1 for x, y in zip(padded, b) if x != y and x != "-")
            best = mism if best is None else min(best, mism)
        return dist_weight * (best or 0) + gap_penalty * gaps

    @classmethod
    def apply_pairwise_sparse(cls, metric=None, seqs=None, pairs=None, **kw):
        import numpy as np
        cls.calls.append(dict(kw))
        return np.array([cls.dist(seqs[int(i)], seqs[int(j)], **kw) for i, j in pairs], dtype=float)
