"""Contract models of the SciPy entry points on the checked paths.

* scipy.spatial.KDTree(data, ...).query_ball_point(x, r, p=2, workers=...): for each query point the
  list of indices i with ||data[i] - x||_2 <= r; for multi-point queries each list is sorted
  ascending (return_sorted=None).  Integer coordinates here, so the test is sum(d^2) <= floor(r*r)
  with r*r evaluated in floats exactly as the real code's radius (a concrete number).
* scipy.sparse.coo_matrix((data, (row, col)), shape): duplicate (row, col) entries are SUMMED by
  toarray(); indices must be inside `shape`.
* scipy.spatial.distance.squareform: vector of length n(n-1)/2 <-> symmetric n x n matrix with zero
  diagonal, row-major upper triangle; with checks=False a matrix is converted without validation.
* linkage / fcluster / minimize_scalar / zeta / interpn: uninterpreted term constructors (wiring claims).
"""
import math

from models import np_model as npm
from models.np_model import NDArray, ModelUnsupported


class KDTree:
    def __init__(self, data, leafsize=10, compact_nodes=True, copy_data=False, balanced_tree=True, boxsize=None):
        rows = [npm._as_list(r) if not isinstance(r, NDArray) else list(r._d) for r in data]
        self.data = rows
        self.n = len(rows)
        self.m = len(rows[0]) if rows else 0
        for r in rows:
            if len(r) != self.m:
                raise ValueError("data must be of shape (n, m)")

    def query_ball_point(self, x, r, p=2.0, eps=0, workers=1, return_sorted=None, return_length=False):
        if p != 2.0 or eps != 0 or return_length:
            raise ModelUnsupported("KDTree.query_ball_point options")
        if workers == 0 or workers < -1:
            raise ValueError("Invalid number of workers")
        pts = [npm._as_list(q) if not isinstance(q, NDArray) else list(q._d) for q in x]
        rr = r * r
        out = []
        for q in pts:
            if len(q) != self.m:
                raise ValueError("Searching for a point of wrong dimension")
            hits = []
            for i, d in enumerate(self.data):
                s = 0
                for a, b in zip(d, q):
                    s = s + (a - b) * (a - b)
                if s <= rr:
                    hits.append(i)
            out.append(hits)
        return NDArray(out, (len(out),), object)


class coo_matrix:
    def __init__(self, arg1, shape=None, dtype=None, copy=False):
        data, (row, col) = arg1
        self.data = npm._as_list(data)
        self.row = [int(v) for v in npm._as_list(row)]
        self.col = [int(v) for v in npm._as_list(col)]
        if not (len(self.data) == len(self.row) == len(self.col)):
            raise ValueError("row, column, and data array must all be the same length")
        if shape is None:
            shape = (max(self.row) + 1 if self.row else 0, max(self.col) + 1 if self.col else 0)
        self.shape = (int(shape[0]), int(shape[1]))
        for r_, c_ in zip(self.row, self.col):
            if r_ < 0 or c_ < 0:
                raise ValueError("negative index found")
            if r_ >= self.shape[0]:
                raise ValueError("row index exceeds matrix dimensions")
            if c_ >= self.shape[1]:
                raise ValueError("column index exceeds matrix dimensions")

    def toarray(self):
        r, c = self.shape
        out = [0] * (r * c)
        for i, j, v in zip(self.row, self.col, self.data):
            out[i * c + j] = out[i * c + j] + v
        return NDArray(out, (r, c))

    todense = toarray

    @property
    def nnz(self):
        return len(self.data)


def squareform(X, force="no", checks=True):
    X = npm.asarray(X)
    if X.ndim == 1:
        k = X.shape[0]
        if k == 0:
            return NDArray([0.0], (1, 1))
        n = int(math.ceil(math.sqrt(k * 2)))
        if n * (n - 1) != k * 2:
            raise ValueError("Incompatible vector size. It must be a binomial coefficient n choose 2 for some integer n >= 2.")
        out = [0] * (n * n)
        p = 0
        for i in range(n - 1):
            for j in range(i + 1, n):
                out[i * n + j] = X._d[p]
                out[j * n + i] = X._d[p]
                p += 1
        return NDArray(out, (n, n))
    if X.ndim == 2:
        r, c = X.shape
        if r != c:
            raise ValueError("The matrix argument must be square.")
        if checks:
            for i in range(r):
                if X._d[i * c + i] != 0:
                    raise ValueError("Distance matrix 'X' diagonal must be zero.")
                for j in range(i + 1, r):
                    if X._d[i * c + j] != X._d[j * c + i]:
                        raise ValueError("Distance matrix 'X' must be symmetric.")
        out = [X._d[i * c + j] for i in range(r - 1) for j in range(i + 1, r)]
        return NDArray(out, (len(out),))
    raise ValueError("The first argument must be one or two dimensional array.")


class Term:
    """Opaque, structurally comparable record of a library call (uninterpreted function)."""

    def __init__(self, name, args, kwargs):
        self.name, self.args, self.kwargs = name, args, kwargs

    def __repr__(self):
        return f"Term({self.name}, {self.args!r}, {self.kwargs!r})"


def term_ctor(name):
    def f(*args, **kwargs):
        return Term(name, args, dict(kwargs))
    f.__name__ = name
    return f


def mapping(names, log, state):
    import scipy.spatial
    import scipy.sparse
    import scipy.spatial.distance as ssd
    import scipy.cluster.hierarchy as hcl
    from vlib.rebind import ModuleProxy
    m = [
        (scipy.spatial.KDTree, KDTree),
        (scipy.sparse.coo_matrix, coo_matrix),
        (ssd.squareform, squareform),
        (ssd, ModuleProxy(ssd, {"squareform": squareform}, log)),
    ]
    if "sp_terms" in names:
        m.append((hcl, ModuleProxy(hcl, {"linkage": term_ctor("linkage"), "fcluster": term_ctor("fcluster")}, log)))
    return m
