"""Contract model of multiprocessing.Pool as pyrepseq uses it (CPython Lib/multiprocessing/pool.py).

* Pool(processes): processes must be >= 1 (ValueError otherwise); context-manager protocol.
* map(func, iterable, chunksize): results in INPUT order.  chunksize None -> ceil(len / (4*processes)).
  A chunksize <= 0 with a non-empty iterable yields [None] * len(iterable) without running anything
  (MapResult.__init__: `if chunksize <= 0: self._number_left = 0; self._event.set()`, and
  Pool._get_tasks yields nothing for size 0) - this is CPython's actual behaviour and is checked
  against the real class in the conformance pre-flight.
* Workers are forked at Pool creation: they see the module globals of `func` as of that moment, and
  nothing a task assigns to a global is visible to the parent or to tasks of another chunk.
  Chunks are executed in a solver-chosen order (forward or reverse) - the schedule.
"""
from vlib import sym


def concretize(x, lo, hi, what="value"):
    """Realise a symbolic int by forking over [lo, hi] (each value = one solver-visible branch)."""
    if not hasattr(x, "var"):
        return int(x)
    for v in range(lo, hi + 1):
        if x == v:
            return v
    raise ValueError(f"{what} outside modelled range [{lo}, {hi}]")


class Pool:
    created = 0

    def __init__(self, processes=None, initializer=None, initargs=(), maxtasksperchild=None, context=None):
        if processes is None:
            processes = 4
        if processes < 1:
            raise ValueError("Number of processes must be at least 1")
        self._processes = processes
        Pool.created += 1
        # fork: the workers' view of every pyrepseq module's globals is frozen now
        import sys
        self._snap = {}
        for name, mod in list(sys.modules.items()):
            if mod is not None and (name == "pyrepseq" or name.startswith("pyrepseq.")):
                self._snap[id(mod.__dict__)] = dict(mod.__dict__)

    def __enter__(self):
        return self

    def __exit__(self, *a):
        return False

    def map(self, func, iterable, chunksize=None):
        items = list(iterable)
        n = len(items)
        if chunksize is None:
            procs = concretize(self._processes, 1, 64, "processes")
            chunksize, extra = divmod(n, procs * 4)
            if extra:
                chunksize += 1
        if n == 0:
            chunksize = 0
        cs = concretize(chunksize, -1, max(n, 1), "chunksize")
        if cs <= 0:
            return [None] * n
        chunks = [list(range(i, min(i + cs, n))) for i in range(0, n, cs)]
        order = list(range(len(chunks)))
        from crosshair.statespace import optional_context_statespace
        if len(chunks) > 1 and optional_context_statespace() is not None and sym.sym_bool(f"pool_reverse_{Pool.created}", register=False):
            order.reverse()
        g = getattr(func, "__globals__", None)
        snap = self._snap.get(id(g)) if g is not None else None
        results = [None] * n
        parent = dict(g) if snap is not None else None
        for ci in order:
            if snap is not None:            # each chunk runs in a worker that sees the fork-time globals
                _restore(g, snap)
            for idx in chunks[ci]:
                results[idx] = func(items[idx])
        if snap is not None:                # nothing a worker assigned is visible to the parent
            _restore(g, parent)
        return results

    def close(self):
        pass

    def join(self):
        pass

    def terminate(self):
        pass


def _restore(g, to):
    for k in list(g.keys()):
        if k not in to:
            del g[k]
    for k, v in to.items():
        if k not in g or g[k] is not v:
            g[k] = v


def mapping(names, log, state):
    import multiprocessing
    import multiprocessing.pool
    m = [(multiprocessing.Pool, Pool), (multiprocessing.pool.Pool, Pool)]
    if state is not None:
        state.path_hooks.append(lambda: setattr(Pool, "created", 0))
    return m
