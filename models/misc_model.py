"""Stand-ins for the remaining third-party entry points.

tidytcells.{junction,tr,mh,aa}.standardize and tr.get_aa_sequence: term constructors / symbolic dictionaries (what tidytcells
returns for a symbol is outside every claim; the claim is WHICH call is made with WHICH arguments for WHICH cell).
igraph.Graph(edges, n).connected_components(mode): contract model (union-find), `.membership` = component id per vertex
numbered in order of first appearance (igraph's convention).  tqdm: identity.  logomaker.alignment_to_matrix: contract model
(per-position character counts as a DataFrame; characters '-' and '.' are gaps and not counted; columns sorted)."""
from models.sp_model import Term, term_ctor
from vlib.rebind import ModuleProxy


class _NS:
    def __init__(self, **kw):
        self.__dict__.update(kw)


TR_SEQ = {"table": None}     # set by a harness: callable(v_gene) -> dict


def get_aa_sequence(gene, species="homosapiens", **kw):
    if TR_SEQ["table"] is None:
        return Term("tr.get_aa_sequence", (gene,), {"species": species, **kw})
    return TR_SEQ["table"](gene)


def make_tt(real_tt, log):
    return ModuleProxy(real_tt, {
        "junction": _NS(standardize=term_ctor("junction.standardize")),
        "tr": _NS(standardize=term_ctor("tr.standardize"), get_aa_sequence=get_aa_sequence),
        "mh": _NS(standardize=term_ctor("mh.standardize")),
        "aa": _NS(standardize=term_ctor("aa.standardize")),
    }, log)


class Graph:
    def __init__(self, edges=None, n=0, directed=False, **kw):
        self.n = int(n)
        self.edges = []
        for e in (edges if edges is not None else []):
            a, b = int(e[0]), int(e[1])
            if a < 0 or b < 0:
                raise ValueError("vertex IDs must be non-negative")
            self.n = max(self.n, a + 1, b + 1)
            self.edges.append((a, b))

    def connected_components(self, mode="strong"):
        parent = list(range(self.n))

        def find(x):
            while parent[x] != x:
                parent[x] = parent[parent[x]]
                x = parent[x]
            return x
        for a, b in self.edges:
            ra, rb = find(a), find(b)
            if ra != rb:
                parent[rb] = ra
        ids, membership = {}, []
        for v in range(self.n):
            r = find(v)
            if r not in ids:
                ids[r] = len(ids)
            membership.append(ids[r])
        return _NS(membership=membership)

    def simplify(self):
        self.edges = sorted(set((min(a, b), max(a, b)) for a, b in self.edges if a != b))


def alignment_to_matrix(sequences, to_type="counts", characters_to_ignore=".-", **kw):
    from models import pd_model
    seqs = list(sequences)
    if not seqs:
        raise ValueError("sequences must have length > 0")
    L = len(seqs[0])
    for s in seqs:
        if len(s) != L:
            raise ValueError("all elements of sequences must have the same length.")
    chars = []
    for s in seqs:
        for i in range(L):
            ch = s[i]
            if ch in characters_to_ignore:
                continue
            known = False
            for c in chars:
                if c == ch:
                    known = True
                    break
            if not known:
                chars.append(ch)
    order = []
    for ch in chars:                      # sorted columns
        pos = len(order)
        while pos > 0 and ch < order[pos - 1]:
            pos -= 1
        order.insert(pos, ch)
    cols = []
    for c in order:
        cols.append([sum(1 for s in seqs if s[i] == c) for i in range(L)])
    return pd_model.DataFrame._from_cols(order, cols, list(range(L)))


def mapping(names, log, state):
    m = []
    import tidytcells
    import tidytcells.tr
    m.append((tidytcells, make_tt(tidytcells, log)))
    m.append((tidytcells.tr, _NS(standardize=term_ctor("tr.standardize"), get_aa_sequence=get_aa_sequence)))
    try:
        import igraph
        m.append((igraph, ModuleProxy(igraph, {"Graph": Graph}, log)))
    except ImportError:
        pass
    try:
        import logomaker
        from models.plot_model import Recorder
        m.append((logomaker, ModuleProxy(logomaker, {"alignment_to_matrix": alignment_to_matrix, "Logo": Recorder("lm.Logo"),
                                                     "Glyph": Recorder("lm.Glyph")}, log)))
    except ImportError:
        pass
    import tqdm
    import tqdm.auto
    ident = lambda it=None, *a, **kw: it        # a progress bar yields exactly the items of the iterable it wraps
    m.append((tqdm.auto, _NS(tqdm=ident, trange=lambda *a, **kw: range(*a))))
    m.append((tqdm, _NS(auto=_NS(tqdm=ident, trange=lambda *a, **kw: range(*a)), tqdm=ident, trange=lambda *a, **kw: range(*a))))
    return m
