"""Contract model of the pandas subset pyrepseq touches (pandas 3.0 semantics).

Series: values + index labels (label-based `s[key]`, positional `.iloc`), element-wise ops, map, astype(str),
  .str[a:b], dropna, value_counts, isin, to_numpy, fillna, boolean masks.
DataFrame: ordered columns of equal length + index labels; column get/set (single, list, attribute), copy, rename,
  fillna, apply(axis=1), iterrows, iloc, to_numpy, groupby(by) -> iteration / apply / filter (groups in ascending
  key order, as pandas yields them with sort=True), sample(n) (nondeterministic), value_counts via Series,
  `in` = column membership, len = rows, set_index, add_suffix.
Missing values: None and float nan are both "missing" (isna).  Everything is comparison-driven.
"""
import math

from models import np_model as npm
from models.np_model import NDArray, ModelUnsupported
from vlib import symops as so


def isna(x):
    if isinstance(x, (Series, DataFrame, NDArray, list)):
        raise ModelUnsupported("isna on containers")
    if x is None:
        return True
    if isinstance(x, float) and not so.is_symbolic(x):
        return x != x
    return False


def _default_index(n):
    return list(range(n))


class Index:
    __module__ = "pandas.core.indexes.base"

    def __init__(self, labels, name=None):
        self._values = list(labels)
        self.name = name

    def __len__(self):
        return len(self._values)

    def __iter__(self):
        return iter(list(self._values))

    def __getitem__(self, k):
        if isinstance(k, slice):
            return Index(self._values[k], self.name)
        return self._values[k]

    def __contains__(self, x):
        for v in self._values:
            if v == x:
                return True
        return False

    def tolist(self):
        return list(self._values)

    def to_numpy(self):
        return npm.array(self._values)

    def get_indexer(self, targets):
        out = []
        for t in npm._as_list(targets):
            pos = -1
            for i, v in enumerate(self._values):
                if v == t:
                    pos = i
                    break
            out.append(pos)
        return NDArray(out, (len(out),), "int")

    def __eq__(self, other):
        o = other._values if isinstance(other, Index) else list(other)
        return NDArray([a == b for a, b in zip(self._values, o)], (len(self._values),), bool)

    __hash__ = None

    def equals(self, other):
        o = other._values if isinstance(other, Index) else list(other)
        return len(o) == len(self._values) and all(a == b for a, b in zip(self._values, o))

    def __repr__(self):
        return f"Index({self._values!r})"


class _StrAccessor:
    def __init__(self, s):
        self._s = s

    def __getitem__(self, key):
        return Series([None if isna(v) else v[key] for v in self._s._values], self._s._index, self._s.name)

    def len(self):
        return Series([None if isna(v) else len(v) for v in self._s._values], self._s._index, self._s.name)


class _ILoc:
    def __init__(self, obj):
        self._o = obj

    def __getitem__(self, key):
        o = self._o
        if isinstance(o, Series):
            if isinstance(key, (list, NDArray)):
                idx = [int(k) for k in npm._as_list(key)]
                n = len(o._values)
                for k in idx:
                    if not -n <= k < n:
                        raise IndexError("positional indexers are out-of-bounds")
                return Series([o._values[k] for k in idx], [o._index[k] for k in idx], o.name)
            if isinstance(key, slice):
                return Series(o._values[key], o._index[key], o.name)
            k = int(key)
            n = len(o._values)
            if not -n <= k < n:
                raise IndexError("single positional indexer is out-of-bounds")
            return o._values[k]
        # DataFrame
        if isinstance(key, tuple):
            rk, ck = key
            rows, rkeep = _pos_list(rk, len(o))
            cols, ckeep = _pos_list(ck, len(o._names))
            names = [o._names[c] for c in cols]
            sub = DataFrame._from_cols(names, [[o._cols[o._names[c]][r] for r in rows] for c in cols],
                                       [o._index[r] for r in rows])
            if rkeep and ckeep:
                return sub
            if rkeep:
                return Series(sub._cols[names[0]], sub._index, names[0])
            if ckeep:
                return Series([sub._cols[nm][0] for nm in names], names, o._index[rows[0]])
            return sub._cols[names[0]][0]
        rows, rkeep = _pos_list(key, len(o))
        if rkeep:
            return o._take(rows)
        return Series([o._cols[nm][rows[0]] for nm in o._names], list(o._names), o._index[rows[0]])


class _Loc:
    """label-based row selection: every row whose index label equals the requested label, in request order
    (a duplicated label therefore yields several rows, and a label requested twice yields its rows twice)"""

    def __init__(self, obj):
        self._o = obj

    def __getitem__(self, key):
        o = self._o
        if isinstance(key, tuple):
            raise ModelUnsupported(".loc with column selection")
        labels = npm._as_list(key) if isinstance(key, (list, NDArray, Series, Index)) else [key]
        rows = []
        for lab in labels:
            hits = [i for i, l in enumerate(o._index) if l == lab]
            if not hits:
                raise KeyError(lab)
            rows.extend(hits)
        if isinstance(o, Series):
            if not isinstance(key, (list, NDArray, Series, Index)) and len(rows) == 1:
                return o._values[rows[0]]
            return Series([o._values[i] for i in rows], [o._index[i] for i in rows], o.name)
        if not isinstance(key, (list, NDArray, Series, Index)) and len(rows) == 1:
            return Series([o._cols[n][rows[0]] for n in o._names], list(o._names), o._index[rows[0]])
        return o._take(rows)


def _pos_list(k, n):
    if isinstance(k, slice):
        return list(range(*k.indices(n))), True
    if isinstance(k, (list, NDArray)):
        out = []
        for x in npm._as_list(k):
            x = int(x)
            if not -n <= x < n:
                raise IndexError("positional indexers are out-of-bounds")
            out.append(x % n if n else x)
        return out, True
    x = int(k)
    if not -n <= x < n:
        raise IndexError("single positional indexer is out-of-bounds")
    return [x % n], False



# ------------------------------------------------------------------ generic fallback for un-modelled pandas API
# Same idea as np_model.lifted: an attribute this model lacks is served by the REAL pandas on an object-dtype copy holding the very same
# (possibly symbolic) cells; the result is converted back.  Never reached on the unchanged tree; results are subject to real-stack replay.
def _pd_to_real(x):
    import pandas as pd
    if isinstance(x, Series):
        return pd.Series(list(x._values), index=pd.Index(list(x._index), dtype=object) if x._index else None, name=x.name, dtype=object)
    if isinstance(x, DataFrame):
        idx = pd.Index(list(x._index), dtype=object)
        return pd.DataFrame({n: pd.Series(list(x._cols[n]), index=idx, dtype=object) for n in x._names}, index=idx, columns=list(x._names))
    if isinstance(x, Index):
        return pd.Index(list(x._values), dtype=object)
    if isinstance(x, NDArray):
        return npm._to_real(x)
    if isinstance(x, tuple):
        return tuple(_pd_to_real(v) for v in x)
    if isinstance(x, list) and any(isinstance(v, (Series, DataFrame, NDArray)) for v in x):
        return [_pd_to_real(v) for v in x]
    if isinstance(x, dict) and any(isinstance(v, (Series, DataFrame, NDArray)) for v in x.values()):
        return {k: _pd_to_real(v) for k, v in x.items()}
    return x


def _cell(v):
    import numpy as _np
    if isinstance(v, _np.generic):
        v = v.item()
    if isinstance(v, float) and v != v:
        return None
    return v


def _pd_from_real(r):
    import numpy as _np
    import pandas as pd
    if isinstance(r, pd.DataFrame):
        return DataFrame._from_cols(list(r.columns), [[_cell(v) for v in r[c].tolist()] for c in r.columns], [_cell(v) for v in r.index.tolist()])
    if isinstance(r, pd.Series):
        return Series([_cell(v) for v in r.tolist()], [_cell(v) for v in r.index.tolist()], r.name)
    if isinstance(r, pd.Index):
        return Index([_cell(v) for v in r.tolist()])
    if isinstance(r, _np.ndarray) or isinstance(r, _np.generic):
        return npm._from_real(r)
    if isinstance(r, tuple):
        return tuple(_pd_from_real(v) for v in r)
    if isinstance(r, list):
        return [_pd_from_real(v) for v in r]
    return r


def _lifted_pd(get_real_attr, label):
    def call(*a, **k):
        npm.LIFTED.append(label)
        fn = get_real_attr()
        try:
            res = fn(*[_pd_to_real(x) for x in a], **{n: _pd_to_real(v) for n, v in k.items()})
        except ModelUnsupported:
            raise
        except Exception as e:  # noqa
            raise ModelUnsupported(f"{label} through the real pandas: {type(e).__name__}: {str(e)[:160]}")
        return _pd_from_real(res)
    return call


def _fallback_attr(model_obj, real_cls, name, label):
    if name.startswith("_") or not hasattr(real_cls, name):
        raise AttributeError(name)
    if isinstance(getattr(real_cls, name), property) or not callable(getattr(real_cls, name)):
        npm.LIFTED.append(label)
        try:
            return _pd_from_real(getattr(_pd_to_real(model_obj), name))
        except Exception as e:  # noqa
            raise ModelUnsupported(f"{label} through the real pandas: {type(e).__name__}: {str(e)[:160]}")
    return _lifted_pd(lambda: getattr(_pd_to_real(model_obj), name), label)


class _FallbackMeta(type):
    """class-level attributes the model lacks (alternative constructors such as DataFrame.from_records)"""
    def __getattr__(cls, name):
        import pandas as pd
        real_cls = {"Series": pd.Series, "DataFrame": pd.DataFrame}.get(cls.__name__)
        if name.startswith("_") or real_cls is None or not hasattr(real_cls, name) or not callable(getattr(real_cls, name)):
            raise AttributeError(name)
        return _lifted_pd(lambda: getattr(real_cls, name), f"{cls.__name__}.{name}")


class Series(metaclass=_FallbackMeta):
    __module__ = "pandas.core.series"
    __array_priority__ = 2000

    def __getattr__(self, name):
        import pandas as pd
        return _fallback_attr(self, pd.Series, name, "Series." + name)

    def __init__(self, data=None, index=None, name=None, dtype=None):
        if isinstance(data, Series):
            vals, idx = list(data._values), list(data._index)
            if name is None:
                name = data.name
        elif isinstance(data, dict):
            vals, idx = list(data.values()), list(data.keys())
        elif data is None:
            vals, idx = [], []
        else:
            if isinstance(data, (set, frozenset)) or type(data).__name__ in ("ShellMutableSet", "LinearSet"):
                raise TypeError("'set' type is unordered")       # pandas refuses sets
            if isinstance(data, (int, float, str, bool)) or hasattr(data, "var") and not hasattr(data, "__iter__"):
                n = len(index._values if isinstance(index, Index) else list(index)) if index is not None else 1
                vals = [data] * n                                  # a scalar is broadcast over the index
            else:
                vals = npm._as_list(data)
            idx = None
        if index is not None:
            idx2 = index._values if isinstance(index, Index) else list(index)
            if isinstance(data, Series):
                raise ModelUnsupported("Series reindexing")
            if len(idx2) != len(vals):
                raise ValueError(f"Length of values ({len(vals)}) does not match length of index ({len(idx2)})")
            idx = list(idx2)
        if idx is None:
            idx = _default_index(len(vals))
        self._values = vals
        self._index = idx
        self.name = name

    # --- basics
    def __len__(self):
        return len(self._values)

    def __iter__(self):
        return iter(list(self._values))

    @property
    def index(self):
        return Index(self._index)

    @property
    def values(self):
        return npm.array(self._values)

    @property
    def iloc(self):
        return _ILoc(self)

    @property
    def loc(self):
        return _Loc(self)

    @property
    def str(self):
        return _StrAccessor(self)

    @property
    def shape(self):
        return (len(self._values),)

    @property
    def size(self):
        return len(self._values)

    def to_numpy(self, dtype=None, copy=False, na_value=None):
        if dtype is None:
            return NDArray(list(self._values), (len(self._values),), None)      # object array, as for pandas str/object columns
        return npm.array(list(self._values), dtype=dtype)

    def tolist(self):
        return list(self._values)

    to_list = tolist

    def copy(self):
        return Series(list(self._values), list(self._index), self.name)

    def items(self):
        return list(zip(self._index, self._values))

    def __repr__(self):
        return f"Series({self._values!r}, index={self._index!r}, name={self.name!r})"

    # --- label based access (pandas 3: integer keys are labels, never positions)
    def __getitem__(self, key):
        if isinstance(key, slice):
            return Series(self._values[key], self._index[key], self.name)
        if isinstance(key, (list, NDArray, Series)):
            kl = npm._as_list(key)
            if len(kl) and all(isinstance(k, bool) or npm._is_symbool(k) for k in kl):
                if len(kl) != len(self._values):
                    raise IndexError("Boolean index has wrong length")
                keep = [i for i, k in enumerate(kl) if k]
                return Series([self._values[i] for i in keep], [self._index[i] for i in keep], self.name)
            pos = [self._loc(k) for k in kl]
            return Series([self._values[i] for i in pos], [self._index[i] for i in pos], self.name)
        return self._values[self._loc(key)]

    def _loc(self, key):
        hits = [i for i, lab in enumerate(self._index) if lab == key]
        if not hits:
            raise KeyError(key)
        if len(hits) > 1:
            raise ModelUnsupported("duplicate index label lookup")
        return hits[0]

    def __setitem__(self, key, value):
        self._values[self._loc(key)] = value

    # --- element-wise
    def _bin(self, other, f):
        if isinstance(other, Series):
            if len(other) != len(self):
                raise ModelUnsupported("Series alignment")
            return Series([f(a, b) for a, b in zip(self._values, other._values)], self._index, self.name)
        if isinstance(other, (NDArray, list)):
            ol = npm._as_list(other)
            return Series([f(a, b) for a, b in zip(self._values, ol)], self._index, self.name)
        return Series([f(a, other) for a in self._values], self._index, self.name)

    def __add__(self, o): return self._bin(o, lambda a, b: None if isna(a) or isna(b) else a + b)
    def __radd__(self, o): return self._bin(o, lambda a, b: None if isna(a) or isna(b) else b + a)
    def __mul__(self, o): return self._bin(o, lambda a, b: a * b)
    __rmul__ = __mul__
    def __sub__(self, o): return self._bin(o, lambda a, b: a - b)
    def __truediv__(self, o): return self._bin(o, npm._div)
    def __gt__(self, o): return self._bin(o, lambda a, b: a > b)
    def __ge__(self, o): return self._bin(o, lambda a, b: a >= b)
    def __lt__(self, o): return self._bin(o, lambda a, b: a < b)
    def __le__(self, o): return self._bin(o, lambda a, b: a <= b)
    def __eq__(self, o): return self._bin(o, lambda a, b: a == b)
    def __ne__(self, o): return self._bin(o, lambda a, b: a != b)
    def __invert__(self): return Series([so.b_not(a) for a in self._values], self._index, self.name)
    __hash__ = None

    def map(self, f, na_action=None):
        if isinstance(f, dict):
            return Series([f.get(v) for v in self._values], self._index, self.name)
        return Series([f(v) for v in self._values], self._index, self.name)

    apply = map

    def astype(self, t):
        if t in (str, "str"):
            # pandas 3.0 (string dtype): missing values stay missing under astype(str)
            return Series([v if isna(v) else (v if isinstance(v, str) else str(v)) for v in self._values],
                          self._index, self.name)
        return Series(list(self._values), self._index, self.name)

    def fillna(self, value):
        return Series([value if isna(v) else v for v in self._values], self._index, self.name)

    def dropna(self):
        keep = [i for i, v in enumerate(self._values) if not isna(v)]
        return Series([self._values[i] for i in keep], [self._index[i] for i in keep], self.name)

    def isna(self):
        return Series([isna(v) for v in self._values], self._index, self.name)

    def isin(self, values):
        vals = list(values)
        return Series([any(v == w for w in vals) for v in self._values], self._index, self.name)

    def sum(self):
        t = 0
        for v in self._values:
            if not isna(v):
                t = t + v
        return t

    def idxmax(self):
        best = None
        for i, v in enumerate(self._values):
            if isna(v):
                continue
            if best is None or v > self._values[best]:
                best = i
        if best is None:
            raise ValueError("attempt to get argmax of an empty sequence")
        return self._index[best]

    def cumsum(self):
        out, t = [], 0
        for v in self._values:
            t = t + v
            out.append(t)
        return Series(out, self._index, self.name)

    def value_counts(self, dropna=True):
        vals = [v for v in self._values if not (dropna and isna(v))]
        groups = []
        for v in vals:
            for g in groups:
                if g[0] == v:
                    g[1] += 1
                    break
            else:
                groups.append([v, 1])
        order = []
        for gi in range(len(groups)):          # descending count, stable
            pos = len(order)
            while pos > 0 and groups[order[pos - 1]][1] < groups[gi][1]:
                pos -= 1
            order.insert(pos, gi)
        return Series([groups[g][1] for g in order], [groups[g][0] for g in order], "count")

    def unique(self):
        vals, _, first, _ = npm._sorted_unique(self._values)
        order = sorted(range(len(vals)), key=lambda k: first[k])
        return npm.array([vals[k] for k in order])

    def __array__(self, dtype=None, copy=None):
        raise ModelUnsupported("real NumPy called on a model Series")


class _Rows:
    pass


def _align_for_setitem(value, index):
    """pandas aligns an assigned Series on the frame's index: equal indexes -> positional; otherwise the Series is re-indexed
    (labels missing from it become missing values; a Series whose own index has duplicates cannot be re-indexed)."""
    vidx = value._index
    if len(vidx) == len(index) and all(a is b for a, b in zip(vidx, index)):
        return list(value._values)
    if len(vidx) == len(index) and all(a == b for a, b in zip(vidx, index)):
        return list(value._values)
    for i in range(len(vidx)):
        for j in range(i):
            if vidx[i] == vidx[j]:
                raise ValueError("cannot reindex on an axis with duplicate labels")
    out = []
    for lab in index:
        hit = None
        for k, v in zip(vidx, value._values):
            if k == lab:
                hit = v
                break
        out.append(hit)
    return out


class DataFrame(metaclass=_FallbackMeta):
    __module__ = "pandas.core.frame"

    def __init__(self, data=None, index=None, columns=None):
        self._names = []
        self._cols = {}
        self._index = []
        if isinstance(data, DataFrame):
            self._names = list(data._names)
            self._cols = {n: list(v) for n, v in data._cols.items()}
            self._index = list(data._index)
        elif (isinstance(data, dict) or type(data).__name__ == "ShellMutableMap") and any(isinstance(v, Series) for v in data.values()):
            # dict holding Series: pandas aligns them on the union of their indexes (kept as it is when all agree, sorted otherwise); plain
            # sequences are placed positionally and must have the length of that index
            sers = [v for v in data.values() if isinstance(v, Series)]
            first = sers[0]._index
            same = all(len(x._index) == len(first) and all(a is b or a == b for a, b in zip(x._index, first)) for x in sers[1:])
            if same:
                idx = list(first)
            else:
                idx = []
                for x in sers:
                    for lab in x._index:
                        if not any(lab == k for k in idx):
                            idx.append(lab)
                idx = sorted(idx)
            for k, v in data.items():
                if isinstance(v, Series):
                    vals = list(v._values) if same else _align_for_setitem(v, idx)
                else:
                    vals = npm._as_list(v)
                    if len(vals) != len(idx):
                        raise ValueError("array length %d does not match index length %d" % (len(vals), len(idx)))
                self._names.append(k)
                self._cols[k] = vals
            self._index = idx
        elif isinstance(data, dict) or type(data).__name__ == "ShellMutableMap":
            n = None
            for k, v in data.items():
                vals = npm._as_list(v)
                if n is None:
                    n = len(vals)
                elif len(vals) != n:
                    raise ValueError("All arrays must be of the same length")
                self._names.append(k)
                self._cols[k] = vals
            self._index = _default_index(n or 0)
        elif data is None:
            self._names = list(columns) if columns is not None else []
            self._cols = {n: [] for n in self._names}
        else:
            if isinstance(data, NDArray):
                rows = data.tolist() if data.ndim == 2 else [[v] for v in data.tolist()]
            else:
                rows = [npm._as_list(r) if not isinstance(r, (str,)) else [r] for r in data]
            width = len(rows[0]) if rows else (len(columns) if columns is not None else 0)
            names = list(columns) if columns is not None else list(range(width))
            if rows and len(names) != width:
                raise ValueError(f"{len(names)} columns passed, passed data had {width} columns")
            self._names = names
            self._cols = {n: [r[j] for r in rows] for j, n in enumerate(names)}
            self._index = _default_index(len(rows))
        if index is not None:
            idx = index._values if isinstance(index, Index) else list(index)
            if self._names and len(idx) != len(self):
                raise ValueError("Length of index does not match")
            self._index = list(idx)

    @classmethod
    def from_dict(cls, data, orient="columns", dtype=None, columns=None):
        if dtype is not None:
            raise ModelUnsupported("from_dict(dtype=)")
        if orient == "columns":
            if columns is not None:
                raise ValueError("cannot use columns parameter with orient='columns'")
            return cls(dict(data))
        if orient != "index":
            raise ModelUnsupported(f"from_dict(orient={orient!r})")
        keys = list(data.keys())
        rows = [data[k] for k in keys]
        if any(isinstance(r, (dict, Series)) for r in rows):
            raise ModelUnsupported("from_dict(orient='index') with mapping rows")
        rows = [npm._as_list(r) for r in rows]
        width = len(rows[0]) if rows else (len(columns) if columns is not None else 0)
        names = list(columns) if columns is not None else list(range(width))
        if rows and any(len(r) != len(names) for r in rows):
            raise ValueError(f"{len(names)} columns passed, passed data had {width} columns")
        return cls._from_cols(names, [[r[j] for r in rows] for j in range(len(names))], keys)

    @classmethod
    def _from_cols(cls, names, cols, index):
        df = cls()
        df._names = list(names)
        df._cols = {n: list(c) for n, c in zip(names, cols)}
        df._index = list(index)
        return df

    # --- basics
    def __len__(self):
        return len(self._index)

    @property
    def shape(self):
        return (len(self._index), len(self._names))

    @property
    def columns(self):
        return Index(self._names)

    @columns.setter
    def columns(self, names):
        names = list(names)
        if len(names) != len(self._names):
            raise ValueError("Length mismatch")
        self._cols = {new: self._cols[old] for old, new in zip(self._names, names)}
        self._names = names

    @property
    def index(self):
        return Index(self._index)

    @property
    def iloc(self):
        return _ILoc(self)

    @property
    def loc(self):
        return _Loc(self)

    @property
    def values(self):
        return self.to_numpy()

    def to_numpy(self):
        r, c = len(self), len(self._names)
        return NDArray([self._cols[n][i] for i in range(r) for n in self._names], (r, c), object)

    def __contains__(self, name):
        for n in self._names:
            if n == name:
                return True
        return False

    def __iter__(self):
        return iter(list(self._names))

    def copy(self, deep=True):
        return DataFrame(self)

    def _take(self, rows):
        return DataFrame._from_cols(self._names, [[self._cols[n][r] for r in rows] for n in self._names],
                                    [self._index[r] for r in rows])

    def __repr__(self):
        return f"DataFrame({ {n: self._cols[n] for n in self._names}!r}, index={self._index!r})"

    # --- column access
    def __getitem__(self, key):
        if isinstance(key, (list, Index)) and not (len(key) and all(isinstance(k, bool) or npm._is_symbool(k) for k in key)):
            names = list(key)
            for n in names:
                if n not in self:
                    raise KeyError(n)
            return DataFrame._from_cols(names, [self._cols[n] for n in names], self._index)
        if isinstance(key, (Series, NDArray, list)):
            mask = npm._as_list(key)
            if len(mask) != len(self):
                raise ValueError("Item wrong length")
            return self._take([i for i, m in enumerate(mask) if m])
        if isinstance(key, DataFrame):
            raise ModelUnsupported("frame-valued mask")
        if key not in self:
            raise KeyError(key)
        return Series(self._cols[key], self._index, key)

    def __getattr__(self, name):
        if name.startswith("_"):
            raise AttributeError(name)
        cols = object.__getattribute__(self, "_cols")
        if name in cols:
            return Series(cols[name], object.__getattribute__(self, "_index"), name)
        import pandas as pd
        return _fallback_attr(self, pd.DataFrame, name, "DataFrame." + name)

    def __setattr__(self, name, value):
        if name.startswith("_") or name in ("columns",):
            object.__setattr__(self, name, value)
            return
        if name in self._cols or isinstance(value, (Series, list, NDArray)):
            # pandas: attribute assignment only sets an EXISTING column
            if name in self._cols:
                self[name] = value
                return
        object.__setattr__(self, name, value)

    def __setitem__(self, key, value):
        if isinstance(key, list):
            if isinstance(value, DataFrame):
                if len(value._names) != len(key):
                    raise ValueError("Columns must be same length as key")
                for k, n in zip(key, value._names):
                    self[k] = Series(value._cols[n], value._index)
                return
            raise ModelUnsupported("list-key assignment of non-frame")
        empty_frame = not self._index and all(len(self._cols[n]) == 0 for n in self._names)
        if isinstance(value, Series):
            vals = list(value._values)
            if not empty_frame:
                vals = _align_for_setitem(value, self._index)
        elif isinstance(value, (list, NDArray, tuple)):
            vals = npm._as_list(value)
        else:
            vals = [value] * len(self)
        if empty_frame:
            # assigning into a frame without rows: the frame takes the new column's index, other columns become missing
            self._index = list(value._index) if isinstance(value, Series) else _default_index(len(vals))
            for n in self._names:
                self._cols[n] = [None] * len(self._index)
        if len(vals) != len(self):
            raise ValueError(f"Length of values ({len(vals)}) does not match length of index ({len(self)})")
        if key not in self._cols:
            self._names.append(key)
        self._cols[key] = vals

    # --- transformations
    def rename(self, columns=None, **kw):
        if columns is None:
            return self.copy()
        if callable(columns):
            new = [columns(n) for n in self._names]
        else:
            new = [columns[n] if n in columns else n for n in self._names]
        return DataFrame._from_cols(new, [self._cols[n] for n in self._names], self._index)

    def add_suffix(self, suffix):
        return DataFrame._from_cols([str(n) + suffix for n in self._names], [self._cols[n] for n in self._names], self._index)

    def set_index(self, name):
        if name not in self:
            raise KeyError(name)
        rest = [n for n in self._names if n != name]
        return DataFrame._from_cols(rest, [self._cols[n] for n in rest], self._cols[name])

    def fillna(self, value):
        return DataFrame._from_cols(self._names, [[value if isna(v) else v for v in self._cols[n]] for n in self._names],
                                    self._index)

    def dropna(self):
        keep = [i for i in range(len(self)) if not any(isna(self._cols[n][i]) for n in self._names)]
        return self._take(keep)

    def apply(self, f, axis=0):
        if axis != 1:
            raise ModelUnsupported("DataFrame.apply axis=0")
        out = []
        for i in range(len(self)):
            out.append(f(Series([self._cols[n][i] for n in self._names], list(self._names), self._index[i])))
        return Series(out, self._index)

    def iterrows(self):
        return [(self._index[i], Series([self._cols[n][i] for n in self._names], list(self._names), self._index[i]))
                for i in range(len(self))]

    def sample(self, n=None, **kw):
        idx = npm.RANDOM.choice(len(self), size=n, replace=False)
        return self._take([int(i) for i in idx._d])

    def groupby(self, by, sort=True):
        return GroupBy(self, by)

    def value_counts(self, dropna=True):
        """distinct rows with their multiplicity (descending count); only its length / counts are used by pyrepseq"""
        rows = [tuple(self._cols[n][i] for n in self._names) for i in range(len(self))]
        if dropna:
            rows = [r for r in rows if not any(isna(v) for v in r)]
        groups = []
        for r in rows:
            for g in groups:
                if all(a == b for a, b in zip(g[0], r)):
                    g[1] += 1
                    break
            else:
                groups.append([r, 1])
        groups.sort(key=lambda g: -g[1])
        return Series([g[1] for g in groups], [g[0] for g in groups], "count")

    def equals(self, other):
        return (isinstance(other, DataFrame) and self._names == other._names and self._index == other._index
                and all(_cells_equal(self._cols[n], other._cols[n]) for n in self._names))

    def __array__(self, dtype=None, copy=None):
        raise ModelUnsupported("real NumPy called on a model DataFrame")


def _cells_equal(a, b):
    if len(a) != len(b):
        return False
    for x, y in zip(a, b):
        if isna(x) or isna(y):
            if not (isna(x) and isna(y)):
                return False
        elif not (x == y):
            return False
    return True


class GroupBy:
    """groupby(by) for `by` a column label or list of labels; groups in ascending key order; rows with a
    missing key are dropped (pandas default dropna=True)."""

    def __init__(self, df, by):
        self._df = df
        self._by = by
        self._keys_list = list(by) if isinstance(by, list) else [by]
        for k in self._keys_list:
            if k not in df:
                raise KeyError(k)
        rows = []
        for i in range(len(df)):
            key = tuple(df._cols[k][i] for k in self._keys_list)
            if any(isna(v) for v in key):
                continue
            rows.append((key if isinstance(by, list) else key[0], i))
        groups = []     # [key, [rows]]
        for key, i in rows:
            for g in groups:
                if g[0] == key:
                    g[1].append(i)
                    break
            else:
                groups.append([key, [i]])
        order = []
        for gi in range(len(groups)):
            pos = len(order)
            while pos > 0 and groups[gi][0] < groups[order[pos - 1]][0]:
                pos -= 1
            order.insert(pos, gi)
        self._groups = [groups[g] for g in order]

    def __iter__(self):
        return iter([(key, self._df._take(rows)) for key, rows in self._groups])

    def __len__(self):
        return len(self._groups)

    def filter(self, func):
        keep = []
        for key, rows in self._groups:
            if func(self._df._take(rows)):
                keep.extend(rows)
        keep.sort()
        return self._df._take(keep)

    def apply(self, func, include_groups=False):
        """pandas 3.0: grouping columns are excluded from the frame handed to func.  Scalar results ->
        Series indexed by group key; Series results with a common index -> DataFrame (rows = groups)."""
        keys, res = [], []
        cols = [n for n in self._df._names if n not in self._keys_list]
        for key, rows in self._groups:
            sub = self._df._take(rows)
            sub = DataFrame._from_cols(cols, [sub._cols[n] for n in cols], sub._index)
            keys.append(key)
            res.append(func(sub))
        if res and all(isinstance(r, Series) for r in res):
            idx0 = res[0]._index
            if all(r._index == idx0 for r in res):
                return DataFrame._from_cols(list(idx0), [[r._values[j] for r in res] for j in range(len(idx0))], keys)
            raise ModelUnsupported("groupby.apply with differing Series indexes")
        if not res:
            return DataFrame()
        return Series(res, keys)


class MultiIndex(Index):
    @classmethod
    def from_tuples(cls, tuples, names=None):
        mi = cls([tuple(t) for t in tuples])
        mi.names = names
        return mi


def concat(objs, axis=0):
    objs = list(objs)
    if axis == 1 and all(isinstance(o, Series) for o in objs):
        return DataFrame._from_cols([o.name for o in objs], [o._values for o in objs], objs[0]._index)
    raise ModelUnsupported("concat")


def from_real(obj):
    """real pandas object -> model (used for pass-through reads of bundled data files)"""
    import pandas as pd
    if isinstance(obj, pd.DataFrame):
        return DataFrame._from_cols(list(obj.columns), [obj[c].tolist() for c in obj.columns], obj.index.tolist())
    if isinstance(obj, pd.Series):
        return Series(obj.tolist(), obj.index.tolist(), obj.name)
    return obj


def read_csv(path, *a, **kw):
    """Pass-through: the real reader runs with tracing suspended on fully concrete arguments (bundled CSV files)."""
    from crosshair.tracers import NoTracing
    with NoTracing():
        import pandas as pd
        return from_real(pd.read_csv(path, *a, **kw))


def make_proxy(real_pandas, log):
    from vlib.rebind import ModuleProxy
    from models import sp_model
    over = {"DataFrame": DataFrame, "Series": Series, "isna": isna, "isnull": isna, "Index": Index,
            "MultiIndex": MultiIndex, "concat": concat,
            "merge": sp_model.term_ctor("merge"), "read_csv": read_csv}
    return ModuleProxy(real_pandas, over, log)


def mapping(names, log, state):
    import pandas
    return [(pandas, make_proxy(pandas, log)), (pandas.DataFrame, DataFrame), (pandas.Series, Series)]


def to_real(obj):
    """model -> real pandas object (for replays on the real stack)."""
    import pandas as pd
    if isinstance(obj, Series):
        return pd.Series(list(obj._values), index=list(obj._index), name=obj.name)
    if isinstance(obj, DataFrame):
        return pd.DataFrame({n: obj._cols[n] for n in obj._names}, index=list(obj._index))
    return obj
