"""Build the (real object -> model) mapping for the requested model families and rebind."""
from vlib.rebind import ModuleProxy, rebind


def install(names, fallthrough_log, state=None):
    mapping = []
    names = set(names)
    if "rf" in names:
        import rapidfuzz
        import rapidfuzz.distance.Levenshtein as RL
        import rapidfuzz.distance.Hamming as RH
        import rapidfuzz.process as RP
        import Levenshtein as PL
        from models import rf_model

        mapping += [
            (RL.distance, rf_model.distance),
            (RH.distance, rf_model.hamming),
            (PL.distance, rf_model.distance),
            (RP.extract, rf_model.extract),
            (RL, ModuleProxy(RL, {"distance": rf_model.distance}, fallthrough_log)),
            (RH, ModuleProxy(RH, {"distance": rf_model.hamming}, fallthrough_log)),
        ]
        proc_over = {"extract": rf_model.extract}
        if "np" in names:
            from models import np_model
            proc_over["cdist"] = np_model.rf_cdist
        mapping.append((RP, ModuleProxy(RP, proc_over, fallthrough_log)))
        if state is not None:
            state.path_hooks.append(lambda: rf_model.CALLS.clear())
    if "np" in names:
        import numpy
        from models import np_model
        mapping.append((numpy, np_model.make_proxy(numpy, fallthrough_log)))
        mapping.append((numpy.ndarray, np_model.NDArray))
        if state is not None:
            state.path_hooks.append(np_model.RANDOM.reset)
    for extra in ("sp", "mp", "pd", "misc", "plot"):  # noqa
        if extra in names:
            mod = __import__(f"models.{extra}_model", fromlist=["x"])
            mapping += mod.mapping(names, fallthrough_log, state)
    return rebind(mapping)
