"""Contract model of the NumPy subset pyrepseq uses, written so that it works on symbolic scalars.

A list-backed n-d array (1-D and 2-D are what pyrepseq needs) with element-wise arithmetic,
comparisons, integer / slice / fancy / boolean indexing, and the handful of module functions that
appear on the checked paths.  Everything is comparison-driven (no hashing, no C calls), so a
symbolic element stays symbolic.  Names that are not modelled fall through to real NumPy (and are
recorded in the evidence); they are only ever reached with concrete arguments.

Conventions transcribed from the NumPy reference:
* unique(): sorted unique values (+ counts / first indices); axis=0 sorts rows lexicographically
* intersect1d(a, b, assume_unique, return_indices): sorted common values + indices into a and b
* histogram(a, bins=edges): half-open bins [e_i, e_{i+1}), the last bin closed; input flattened
* random.choice / rand / shuffle / DataFrame.sample: NONDETERMINISTIC - the outcome is a fresh
  symbolic choice, so an assertion must hold for every possible draw.
"""
import math

import numpy as _np

from vlib import symops as so


class ModelUnsupported(Exception):
    pass


# ---------------------------------------------------------------- NumPy scalar semantics for concrete results
# np.sum / element access return NumPy scalars, whose `/` and `**` never raise: x/0 -> inf or nan, negative ** 0.5 -> nan.
# Python's own int/float would raise ZeroDivisionError / return a complex number.  Symbolic values are left alone.
def _np_wrap(v):
    if isinstance(v, bool) or hasattr(v, "var"):
        return v
    if type(v) is int:
        return NpInt(v)
    if type(v) is float:
        return NpFloat(v)
    return v


def _plain(v):
    if type(v) is NpFloat:
        return float(v)
    if type(v) is NpInt:
        return int(v)
    return v


def _np_div(a, b):
    if hasattr(a, "var") or hasattr(b, "var"):
        return _div(a, b)
    a, b = float(a), float(b)
    if b == 0:
        if a == 0 or a != a:
            return NpFloat(math.nan)
        return NpFloat(math.inf if (a > 0) == (math.copysign(1.0, b) > 0) else -math.inf)
    return NpFloat(a / b)


def _np_pow(a, b):
    if hasattr(a, "var") or hasattr(b, "var"):
        return _pow(a, b)
    try:
        r = float.__pow__(float(a), float(b)) if not (isinstance(a, int) and isinstance(b, int) and b >= 0) else int.__pow__(int(a), int(b))
    except (ZeroDivisionError, OverflowError):
        return NpFloat(math.inf)
    if isinstance(r, complex):
        return NpFloat(math.nan)
    return _np_wrap(r)


class _NpMixin:
    def __truediv__(self, o):
        if isinstance(o, NDArray):
            return NotImplemented
        return _np_div(self, o)

    def __rtruediv__(self, o):
        return _np_div(o, self)

    def __pow__(self, o, mod=None):
        if isinstance(o, NDArray):
            return NotImplemented
        return _np_pow(self, o)

    def __rpow__(self, o):
        return _np_pow(o, self)

    def _ar(self, o, name):
        if isinstance(o, NDArray) or hasattr(o, "var") or type(o).__name__ in ("Series",):
            return NotImplemented
        base = float if (isinstance(self, float) or isinstance(o, float)) else int
        r = getattr(base, name)(base(self), base(o)) if not isinstance(o, (NpInt, NpFloat)) or True else None
        return _np_wrap(r) if r is not NotImplemented else r

    def __add__(self, o): return self._ar(o, "__add__")
    def __radd__(self, o): return self._ar(o, "__radd__")
    def __sub__(self, o): return self._ar(o, "__sub__")
    def __rsub__(self, o): return self._ar(o, "__rsub__")
    def __mul__(self, o): return self._ar(o, "__mul__")
    def __rmul__(self, o): return self._ar(o, "__rmul__")
    def __neg__(self): return _np_wrap(-(float(self) if isinstance(self, float) else int(self)))


class NpInt(_NpMixin, int):
    __slots__ = ()

    def __repr__(self):
        return int.__repr__(self)

    __hash__ = int.__hash__


class NpFloat(_NpMixin, float):
    __slots__ = ()

    def __repr__(self):
        return float.__repr__(self)

    __hash__ = float.__hash__


def _is_seq(x):
    return isinstance(x, (list, tuple, NDArray, range)) or (
        type(x).__name__ in ("Series", "Index") and hasattr(x, "_values"))


def _as_list(x):
    if isinstance(x, NDArray):
        return x.tolist()
    if type(x).__name__ in ("Series", "Index") and hasattr(x, "_values"):
        return list(x._values)
    if isinstance(x, _np.ndarray):
        return x.tolist()
    return list(x)


def _shape_of(nested):
    if isinstance(nested, NDArray):
        return nested.shape
    if isinstance(nested, _np.ndarray):
        return nested.shape
    if isinstance(nested, (list, tuple, range)):
        n = len(nested)
        if n == 0:
            return (0,)
        first = nested[0]
        if isinstance(first, (list, tuple, NDArray, range, _np.ndarray)) and not isinstance(first, str):
            sub = _shape_of(first)
            for item in nested:
                if _shape_of(item) != sub:
                    raise ModelUnsupported("ragged nested sequence")
            return (n,) + sub
        return (n,)
    return ()


def _flatten(nested, ndim):
    if ndim == 0:
        return [nested]
    if isinstance(nested, NDArray):
        return list(nested._d)
    if isinstance(nested, _np.ndarray):
        return nested.reshape(-1).tolist()
    out = []
    for item in nested:
        out.extend(_flatten(item, ndim - 1))
    return out


def _norm_dtype(dtype):
    if dtype is None:
        return None
    try:
        return _np.dtype(dtype)
    except TypeError:
        return None


def _infer_dtype(values):
    """NumPy's result dtype for the element kinds pyrepseq produces (fixed-width unicode for all-str data)."""
    if values and all(isinstance(v, str) or type(v).__name__ in ("LazyIntSymbolicStr", "AnySymbolicStr") or
                      (hasattr(v, "__ch_pytype__") and v.__ch_pytype__() is str) for v in values):
        return _np.dtype(f"<U{max(1, max(len(v) for v in values))}")
    return None


def _coerce_value(v, dt):
    """element conversion on construction / assignment into an array of dtype dt (None = keep)"""
    if dt is None:
        return v
    if dt.kind == "U":
        width = dt.itemsize // 4
        if not _is_strlike(v):
            v = str(v)
        return v[:width] if len(v) > width else v
    if dt.kind in "iu":
        if isinstance(v, bool):
            return int(v)
        if isinstance(v, int) and not hasattr(v, "var"):
            return v
        if v is None:
            raise TypeError("int() argument must be a string, a bytes-like object or a real number, not 'NoneType'")
        return int(v)          # floats / symbolic reals truncate toward zero, as NumPy's cast does
    if dt.kind == "f":
        if v is None:
            return float("nan")
        return _to_float(v)
    return v


def _is_strlike(v):
    return isinstance(v, str) or (hasattr(v, "__ch_pytype__") and v.__ch_pytype__() is str)


def _prod(shape):
    p = 1
    for s in shape:
        p *= s
    return p



# ------------------------------------------------------------------ generic fallback for un-modelled NumPy API
# A change to pyrepseq may use NumPy functions / ndarray methods this model does not cover.  Rather than giving up on the path, the call is
# run by the REAL NumPy on object-dtype arrays whose cells are the very same (possibly symbolic) values: NumPy then applies Python's
# operators to the cells, which the tracer follows.  Typed-dtype effects (wrap-around, truncation) are NOT reproduced by an object array, so
# a result obtained this way is marked on the run (LIFTED) and the usual rule applies: only what reproduces on the real stack is reported.
# Never reached on the unchanged tree (its NumPy use is modelled completely - see `unmodelled_library_names_touched` in the evidence).
LIFTED = []


def _has_symbolic(vals):
    return any(type(v).__module__.startswith("crosshair") or hasattr(v, "var") for v in vals)


def _to_real(x):
    if isinstance(x, NDArray):
        nested = x.tolist() if x.ndim else x._d[0]
        dt = x.dtype if isinstance(x.dtype, _np.dtype) and not _has_symbolic(x._d) else object
        try:
            arr = _np.empty(x.shape, dtype=dt)
            if x.ndim:
                flat = arr.reshape(-1)
                for i, v in enumerate(x._d):
                    flat[i] = v
            return arr
        except Exception:  # noqa
            return _np.array(nested, dtype=object)
    if type(x).__name__ == "Series" and hasattr(x, "_values"):
        return _to_real(array(list(x._values)))
    if isinstance(x, tuple):
        return tuple(_to_real(v) for v in x)
    if isinstance(x, list) and any(isinstance(v, NDArray) for v in x):
        return [_to_real(v) for v in x]
    return x


def _from_real(r):
    if isinstance(r, _np.ndarray):
        flat = [v.item() if isinstance(v, _np.generic) else v for v in r.reshape(-1).tolist()] if r.dtype != object else list(r.reshape(-1))
        return NDArray(flat, r.shape, None if r.dtype == object else r.dtype)
    if isinstance(r, _np.generic):
        return r.item()
    if isinstance(r, tuple):
        return tuple(_from_real(v) for v in r)
    if isinstance(r, list):
        return [_from_real(v) for v in r]
    return r


def lifted(real_fn, label):
    def call(*a, **k):
        LIFTED.append(label)
        try:
            res = real_fn(*[_to_real(x) for x in a], **{n: _to_real(v) for n, v in k.items()})
        except ModelUnsupported:
            raise
        except (TypeError, ValueError, IndexError, KeyError, ZeroDivisionError, OverflowError) as e:
            # the same error class the real library raises for these arguments is meaningful to the caller only when no cell is symbolic
            if any(isinstance(x, NDArray) and _has_symbolic(x._d) for x in list(a) + list(k.values())):
                raise ModelUnsupported(f"{label} on symbolic cells: {type(e).__name__}: {str(e)[:120]}")
            raise
        return _from_real(res)
    call.__name__ = getattr(real_fn, "__name__", "lifted")
    return call


class NDArray:
    """Row-major list-backed array."""
    __module__ = "numpy"          # pyrepseq.util.ensure_numpy dispatches on type(x).__module__
    __array_priority__ = 1000

    def __init__(self, data, shape, dtype=None):
        self._d = data
        self.shape = tuple(shape)
        self.dtype = dtype if dtype is None or isinstance(dtype, _np.dtype) else (_norm_dtype(dtype) if dtype not in ("int",) else _np.dtype(int))

    def __getattr__(self, name):
        # un-modelled ndarray attribute: hand the call to the real NumPy on an object-dtype copy (see `lifted`)
        if name.startswith("_") or not hasattr(_np.ndarray, name):
            raise AttributeError(name)
        real_attr = getattr(_np.ndarray, name)
        if not callable(real_attr):
            LIFTED.append("ndarray." + name)
            return _from_real(getattr(_to_real(self), name))
        me = self
        return lifted(lambda *a, **k: getattr(_to_real(me), name)(*a, **k), "ndarray." + name)

    def _co(self, v):
        dt = self.dtype if isinstance(self.dtype, _np.dtype) else None
        if dt is None or dt.kind not in "iufU":
            return v
        return _coerce_value(v, dt)

    # ------------------------------------------------------------ basics
    @property
    def ndim(self):
        return len(self.shape)

    @property
    def size(self):
        return _prod(self.shape)

    @property
    def T(self):
        if self.ndim < 2:
            return self
        r, c = self.shape
        return NDArray([self._d[i * c + j] for j in range(c) for i in range(r)], (c, r), self.dtype)

    @property
    def flat(self):
        return _Flat(self)

    def __len__(self):
        if not self.shape:
            raise TypeError("len() of unsized object")
        return self.shape[0]

    def tolist(self):
        if self.ndim == 0:
            return self._d[0]
        if self.ndim == 1:
            return list(self._d)
        step = _prod(self.shape[1:])
        return [NDArray(self._d[i * step:(i + 1) * step], self.shape[1:], self.dtype).tolist()
                for i in range(self.shape[0])]

    def __iter__(self):
        if self.ndim == 1:
            return iter(list(self._d))
        step = _prod(self.shape[1:])
        return iter([NDArray(self._d[i * step:(i + 1) * step], self.shape[1:], self.dtype)
                     for i in range(self.shape[0])])

    def copy(self):
        return NDArray(list(self._d), self.shape, self.dtype)

    def astype(self, dtype):
        if dtype in (float, _np.float64, "float", "float64"):
            return NDArray([_to_float(x) for x in self._d], self.shape, dtype)
        if dtype in (str, "str"):
            return NDArray([x if isinstance(x, str) else str(x) for x in self._d], self.shape, dtype)
        return NDArray(list(self._d), self.shape, dtype)

    def astype_dt(self, dt):
        return _build(list(self._d), self.shape, dt)

    def reshape(self, *shape):
        if len(shape) == 1 and isinstance(shape[0], (tuple, list)):
            shape = tuple(shape[0])
        shape = list(shape)
        if -1 in shape:
            k = shape.index(-1)
            rest = _prod([s for s in shape if s != -1])
            shape[k] = (len(self._d) // rest) if rest else 0
        if _prod(shape) != len(self._d):
            raise ValueError("cannot reshape array")
        return NDArray(list(self._d), tuple(shape), self.dtype)

    def flatten(self):
        return NDArray(list(self._d), (len(self._d),), self.dtype)

    ravel = flatten

    def __repr__(self):
        return f"NDArray({self.tolist()!r})"

    def __bool__(self):
        if self.size == 1:
            return bool(self._d[0])
        raise ValueError("The truth value of an array with more than one element is ambiguous.")

    # ------------------------------------------------------------ indexing
    def _row(self, i):
        n = self.shape[0]
        i = int(i)
        if i < 0:
            i += n
        if not 0 <= i < n:
            raise IndexError(f"index {i} is out of bounds for axis 0 with size {n}")
        return i

    def __getitem__(self, key):
        if isinstance(key, tuple):
            return self._get2(key)
        if isinstance(key, slice):
            idx = list(range(*key.indices(self.shape[0])))
            return self._take_rows(idx)
        if isinstance(key, NDArray) or isinstance(key, list) or type(key).__name__ == "Series":
            kl = _as_list(key)
            if isinstance(key, NDArray) and key.ndim != 1:
                raise ModelUnsupported("n-d index array")
            if len(kl) and all(isinstance(k, bool) or _is_symbool(k) for k in kl):
                if len(kl) != self.shape[0]:
                    raise IndexError("boolean index did not match indexed array")
                return self._take_rows([i for i, k in enumerate(kl) if k])   # forks on symbolic masks
            return self._take_rows([self._row(k) for k in kl])
        i = self._row(key)
        if self.ndim == 1:
            return self._d[i]
        step = _prod(self.shape[1:])
        return NDArray(self._d[i * step:(i + 1) * step], self.shape[1:], self.dtype)

    def _take_rows(self, idx):
        if self.ndim == 1:
            return NDArray([self._d[i] for i in idx], (len(idx),), self.dtype)
        step = _prod(self.shape[1:])
        out = []
        for i in idx:
            out.extend(self._d[i * step:(i + 1) * step])
        return NDArray(out, (len(idx),) + self.shape[1:], self.dtype)

    def _axis_idx(self, k, n):
        """-> (list of indices, keeps_axis)"""
        if isinstance(k, slice):
            return list(range(*k.indices(n))), True
        if isinstance(k, (list, NDArray)) or type(k).__name__ == "Series":
            kl = _as_list(k)
            if len(kl) and all(isinstance(x, bool) or _is_symbool(x) for x in kl):
                return [i for i, x in enumerate(kl) if x], True
            return [int(x) + (n if int(x) < 0 else 0) for x in kl], True
        i = int(k)
        if i < 0:
            i += n
        if not 0 <= i < n:
            raise IndexError("index out of bounds")
        return [i], False

    def _get2(self, key):
        if self.ndim == 1 and len(key) == 1:
            return self[key[0]]
        if self.ndim != 2 or len(key) != 2:
            if self.ndim == 1 and len(key) == 2:
                raise IndexError("too many indices for array: array is 1-dimensional, but 2 were indexed")
            raise ModelUnsupported("indexing beyond 2-D")
        r, c = self.shape
        ri, rk = self._axis_idx(key[0], r)
        ci, ck = self._axis_idx(key[1], c)
        fancy_r = isinstance(key[0], (list, NDArray))
        fancy_c = isinstance(key[1], (list, NDArray))
        if fancy_r and fancy_c:
            if len(ri) != len(ci):
                raise IndexError("shape mismatch: indexing arrays could not be broadcast together")
            return NDArray([self._d[a * c + b] for a, b in zip(ri, ci)], (len(ri),), self.dtype)
        data = [self._d[a * c + b] for a in ri for b in ci]
        if rk and ck:
            return NDArray(data, (len(ri), len(ci)), self.dtype)
        if rk:
            return NDArray(data, (len(ri),), self.dtype)
        if ck:
            return NDArray(data, (len(ci),), self.dtype)
        return data[0]

    def __setitem__(self, key, value):
        if isinstance(key, tuple):
            if self.ndim != 2 or len(key) != 2:
                raise ModelUnsupported("setitem beyond 2-D")
            r, c = self.shape
            ri, rk = self._axis_idx(key[0], r)
            ci, ck = self._axis_idx(key[1], c)
            fancy_r = isinstance(key[0], (list, NDArray))
            fancy_c = isinstance(key[1], (list, NDArray))
            if fancy_r and fancy_c:
                if len(ri) != len(ci):
                    raise IndexError("shape mismatch: indexing arrays could not be broadcast together")
                cells = list(zip(ri, ci))
            else:
                cells = [(a, b) for a in ri for b in ci]
            vals = _broadcast_to(value, len(cells))
            for (a, b), v in zip(cells, vals):
                self._d[a * c + b] = self._co(v)
            return
        if isinstance(key, slice):
            idx = list(range(*key.indices(self.shape[0])))
        elif isinstance(key, (list, NDArray)):
            idx, _ = self._axis_idx(key, self.shape[0])
        else:
            idx = [self._row(key)]
            if self.ndim == 1:
                self._d[idx[0]] = self._co(value)
                return
        if self.ndim == 1:
            vals = _broadcast_to(value, len(idx))
            for i, v in zip(idx, vals):
                self._d[i] = self._co(v)
            return
        step = _prod(self.shape[1:])
        vals = _broadcast_to(value, len(idx) * step)
        p = 0
        for i in idx:
            for j in range(step):
                self._d[i * step + j] = self._co(vals[p])
                p += 1

    # ------------------------------------------------------------ arithmetic
    def _bin(self, other, f):
        if isinstance(other, NDArray) or _is_seq(other):
            o = other if isinstance(other, NDArray) else array(other)
            if o.shape == self.shape:
                return NDArray([f(a, b) for a, b in zip(self._d, o._d)], self.shape)
            if o.size == 1:
                return NDArray([f(a, o._d[0]) for a in self._d], self.shape)
            if self.size == 1:
                return NDArray([f(self._d[0], b) for b in o._d], o.shape)
            if self.ndim == 2 and o.ndim == 1 and o.shape[0] == self.shape[1]:
                c = self.shape[1]
                return NDArray([f(a, o._d[i % c]) for i, a in enumerate(self._d)], self.shape)
            raise ValueError(f"operands could not be broadcast together with shapes {self.shape} {o.shape}")
        return NDArray([f(a, other) for a in self._d], self.shape)

    def __add__(self, o): return self._bin(o, lambda a, b: a + b)
    def __radd__(self, o): return self._bin(o, lambda a, b: b + a)
    def __sub__(self, o): return self._bin(o, lambda a, b: a - b)
    def __rsub__(self, o): return self._bin(o, lambda a, b: b - a)
    def __mul__(self, o): return self._bin(o, lambda a, b: a * b)
    def __rmul__(self, o): return self._bin(o, lambda a, b: b * a)
    def __truediv__(self, o): return self._bin(o, _np_div)
    def __rtruediv__(self, o): return self._bin(o, lambda a, b: _np_div(b, a))
    def __floordiv__(self, o): return self._bin(o, lambda a, b: a // b)
    def __pow__(self, o): return self._bin(o, _np_pow)
    def __neg__(self):
        dt = self.dtype if isinstance(self.dtype, _np.dtype) else None
        if dt is not None and dt.kind == "u":          # unsigned integers: negation wraps modulo 2^bits (and -0 == 0)
            mod = 1 << (8 * dt.itemsize)
            return NDArray([so.ite(so.eq(a, 0), 0, so.sub(mod, a)) for a in self._d], self.shape, dt)
        return NDArray([-a for a in self._d], self.shape, dt if dt is not None and dt.kind in "if" else None)
    def __invert__(self): return NDArray([so.b_not(a) for a in self._d], self.shape)
    def __and__(self, o): return self._bin(o, lambda a, b: so.b_and(a, b))
    def __or__(self, o): return self._bin(o, lambda a, b: so.b_or(a, b))
    def __lt__(self, o): return self._bin(o, lambda a, b: a < b)
    def __le__(self, o): return self._bin(o, lambda a, b: a <= b)
    def __gt__(self, o): return self._bin(o, lambda a, b: a > b)
    def __ge__(self, o): return self._bin(o, lambda a, b: a >= b)
    def __eq__(self, o): return self._bin(o, lambda a, b: a == b)
    def __ne__(self, o): return self._bin(o, lambda a, b: a != b)
    __hash__ = None

    def _inplace(self, res):
        self._d[:] = res._d
        return self

    def __iadd__(self, o): return self._inplace(self + o)
    def __isub__(self, o): return self._inplace(self - o)
    def __imul__(self, o): return self._inplace(self * o)
    def __itruediv__(self, o): return self._inplace(self / o)
    def __ipow__(self, o): return self._inplace(self ** o)
    def __ifloordiv__(self, o): return self._inplace(self // o)

    # ------------------------------------------------------------ reductions & co
    def sum(self, axis=None):
        return sum_(self, axis=axis)

    def argsort(self, kind=None):
        if self.ndim != 1:
            raise ModelUnsupported("argsort n-d")
        idx = []
        for i in range(len(self._d)):     # stable insertion sort, forks on comparisons
            pos = len(idx)
            while pos > 0 and self._d[idx[pos - 1]] > self._d[i]:
                pos -= 1
            idx.insert(pos, i)
        return NDArray(idx, (len(idx),), "int")

    def any(self, axis=None):
        return any_(self, axis)

    def all(self, axis=None):
        return all_(self, axis)

    def mean(self, axis=None):
        if axis is not None:
            raise ModelUnsupported("mean axis")
        return _np_div(sum_(self), len(self._d))

    def argmin(self):
        best = 0
        for i in range(1, len(self._d)):
            if self._d[i] < self._d[best]:
                best = i
        return best

    def argmax(self):
        best = 0
        for i in range(1, len(self._d)):
            if self._d[i] > self._d[best]:
                best = i
        return best

    def max(self):
        m = self._d[0]
        for x in self._d[1:]:
            if x > m:
                m = x
        return m

    def min(self):
        m = self._d[0]
        for x in self._d[1:]:
            if x < m:
                m = x
        return m


class _Flat:
    def __init__(self, arr):
        self._a = arr

    def __getitem__(self, key):
        if isinstance(key, (NDArray, list)):
            return NDArray([self._a._d[int(k)] for k in _as_list(key)], (len(_as_list(key)),), self._a.dtype)
        return self._a._d[int(key)]


def _is_symbool(x):
    return type(x).__name__ == "SymbolicBool"


def _to_float(x):
    if isinstance(x, bool):
        return float(x)
    if isinstance(x, int):
        return float(x)
    if hasattr(x, "var"):
        return x + 0.0 if type(x).__name__ == "SymbolicInt" else x
    return x


def _div(a, b):
    """True division; division by a (possibly) zero value follows NumPy: nan / inf instead of raising.
    A symbolic divisor forks on `== 0`."""
    a, b = _plain(a), _plain(b)
    if b == 0:
        if a == 0:
            return math.nan
        return math.inf if a > 0 else -math.inf
    return a / b


class _UF:
    """Uninterpreted scalar function (log, sqrt-of-symbolic, pow with non-integer exponent).  One z3
    function symbol per name, so equal arguments give equal results and nothing else is known."""
    _decls = {}

    @classmethod
    def apply(cls, name, *args):
        import z3
        from crosshair.tracers import NoTracing
        with NoTracing():
            zs = []
            for a in args:
                v = so._z(a)
                if isinstance(v, bool):
                    raise TypeError("bool argument")
                if not isinstance(v, z3.ExprRef):
                    v = z3.RealVal(repr(v)) if isinstance(v, float) else z3.RealVal(v)
                elif v.sort() == z3.IntSort():
                    v = z3.ToReal(v)
                zs.append(v)
            key = (name, len(zs))
            if key not in cls._decls:
                cls._decls[key] = z3.Function("uf_" + name, *([z3.RealSort()] * (len(zs) + 1)))
            return so._wrap_num(cls._decls[key](*zs))


def _pow(a, b):
    a, b = _plain(a), _plain(b)
    if isinstance(b, int) and not isinstance(b, bool) and 0 <= b <= 8:
        r = 1
        for _ in range(b):
            r = r * a
        return r
    if not so.is_symbolic(a) and not so.is_symbolic(b):
        return a ** b
    return _UF.apply("pow", a, b)


def _broadcast_to(value, n):
    if isinstance(value, NDArray):
        if value.size == n:
            return list(value._d)
        if value.size == 1:
            return [value._d[0]] * n
        raise ValueError("could not broadcast input array")
    if _is_seq(value):
        v = _flatten(_as_list(value), len(_shape_of(_as_list(value))))
        if len(v) == n:
            return v
        if len(v) == 1:
            return v * n
        raise ValueError("could not broadcast input array")
    return [value] * n


# ---------------------------------------------------------------- module-level functions
def array(obj, dtype=None, copy=True):
    dt = _norm_dtype(dtype)
    if isinstance(obj, NDArray):
        res = obj.copy()
        return res.astype_dt(dt) if dt is not None else res
    if type(obj).__name__ in ("Series", "Index") and hasattr(obj, "_values"):
        return _build(list(obj._values), (len(obj._values),), dt)
    if type(obj).__name__ == "DataFrame" and hasattr(obj, "_cols"):
        return obj.to_numpy()
    if isinstance(obj, (set, frozenset, dict)) or type(obj).__name__ in ("ShellMutableSet", "ShellMutableMap"):
        return NDArray([obj], (), _np.dtype(object))
    if isinstance(obj, str) or _is_strlike(obj) or not hasattr(obj, "__iter__"):
        return _build([obj], (), dt)
    if not isinstance(obj, (list, tuple, range, _np.ndarray)):
        obj = list(obj)
    shape = _shape_of(obj)
    return _build(_flatten(obj, len(shape)), shape, dt)


def _build(values, shape, dt):
    if dt is None:
        dt = _infer_dtype(values)
        return NDArray(values, shape, dt)
    if dt.kind == "U" and dt.itemsize == 0:            # plain `str`: width of the longest element
        strs = [v if _is_strlike(v) else str(v) for v in values]
        dt = _np.dtype(f"<U{max(1, max((len(v) for v in strs), default=1))}")
        return NDArray(strs, shape, dt)
    return NDArray([_coerce_value(v, dt) for v in values], shape, dt)


def asarray(obj, dtype=None):
    if isinstance(obj, NDArray):
        dt = _norm_dtype(dtype)
        if dt is None or dt == obj.dtype:
            return obj
        return obj.astype_dt(dt)
    return array(obj, dtype)


def zeros(shape, dtype=float):
    shape = (shape,) if isinstance(shape, int) else tuple(shape)
    dt = _norm_dtype(dtype) or _np.dtype(float)
    z = 0 if dt.kind in "iu" else 0.0
    return NDArray([z] * _prod(shape), shape, dt)


def ones(shape, dtype=float):
    shape = (shape,) if isinstance(shape, int) else tuple(shape)
    z = 1 if dtype in (int, "int", _np.int64) else 1.0
    return NDArray([z] * _prod(shape), shape, dtype)


def empty(shape, dtype=float):
    shape = (int(shape),) if not isinstance(shape, (tuple, list)) else tuple(shape)
    return NDArray([None] * _prod(shape), shape, _norm_dtype(dtype))


def full(shape, fill_value, dtype=None):
    shape = (int(shape),) if not isinstance(shape, (tuple, list)) else tuple(int(x) for x in shape)
    if dtype is None:
        dtype = _infer_dtype([fill_value])
    return NDArray([fill_value] * _prod(shape), shape, _norm_dtype(dtype))


def _tri_indices(n, k, m, upper):
    n = int(n)
    m = n if m is None else int(m)
    cells = [(i, j) for i in range(n) for j in range(m) if (j - i >= k if upper else j - i <= k)]
    return (NDArray([i for i, _ in cells], (len(cells),), "int"), NDArray([j for _, j in cells], (len(cells),), "int"))


def triu_indices(n, k=0, m=None):
    return _tri_indices(n, int(k), m, True)


def tril_indices(n, k=0, m=None):
    return _tri_indices(n, int(k), m, False)


def arange(*args):
    return NDArray(list(range(*[int(a) for a in args])), (len(range(*[int(a) for a in args])),), "int")


def sum_(a, axis=None):
    if not isinstance(a, NDArray):
        if type(a).__name__ == "Series" and hasattr(a, "_values"):
            a = array(a)
        elif _is_seq(a):
            a = array(a)
        else:
            return a
    if axis is None:
        t = 0
        for x in a._d:
            t = t + x
        return _np_wrap(t)
    if a.ndim == 2:
        r, c = a.shape
        if axis == 0:
            return NDArray([_tot([a._d[i * c + j] for i in range(r)]) for j in range(c)], (c,))
        return NDArray([_tot(a._d[i * c:(i + 1) * c]) for i in range(r)], (r,))
    raise ModelUnsupported("sum axis")


def _truth(x):
    if isinstance(x, bool) or _is_symbool(x):
        return x
    if isinstance(x, str):
        return len(x) > 0
    return x != 0


def any_(a, axis=None):
    a = a if isinstance(a, NDArray) else array(_as_list(a))
    if axis is not None:
        raise ModelUnsupported("any axis")
    return so.b_or(*[_truth(x) for x in a._d]) if a._d else False


def all_(a, axis=None):
    a = a if isinstance(a, NDArray) else array(_as_list(a))
    if axis is not None:
        raise ModelUnsupported("all axis")
    return so.b_and(*[_truth(x) for x in a._d]) if a._d else True


def where(cond, x=None, y=None):
    c = cond if isinstance(cond, NDArray) else array(_as_list(cond))
    if x is None and y is None:
        if c.ndim != 1:
            raise ModelUnsupported("where n-d")
        return (NDArray([i for i, v in enumerate(c._d) if _truth(v)], None, "int"),) if False else (array([i for i, v in enumerate(c._d) if _truth(v)], dtype="int"),)
    xs = _broadcast_to(x, len(c._d)) if not isinstance(x, NDArray) or x.size == 1 else list(x._d)
    ys = _broadcast_to(y, len(c._d)) if not isinstance(y, NDArray) or y.size == 1 else list(y._d)
    return NDArray([so.ite(_truth(v), a_, b_) for v, a_, b_ in zip(c._d, xs, ys)], c.shape)


def _tot(xs):
    t = 0
    for x in xs:
        t = t + x
    return t


def _lt(a, b):
    return a < b


def _sorted_unique(values, lt=_lt):
    """-> (unique sorted values, counts, first indices, inverse); equality first, then ordering."""
    groups = []     # [value, count, first_index]
    inverse = []
    for i, v in enumerate(values):
        for gi, g in enumerate(groups):
            if g[0] == v:                 # forks on symbolic equality
                g[1] += 1
                inverse.append(gi)
                break
        else:
            groups.append([v, 1, i])
            inverse.append(len(groups) - 1)
    order = []
    for gi in range(len(groups)):
        pos = len(order)
        while pos > 0 and lt(groups[gi][0], groups[order[pos - 1]][0]):   # forks on symbolic order
            pos -= 1
        order.insert(pos, gi)
    rank = {gi: r for r, gi in enumerate(order)}
    return ([groups[gi][0] for gi in order], [groups[gi][1] for gi in order],
            [groups[gi][2] for gi in order], [rank[g] for g in inverse])


def _row_lt(a, b):
    for x, y in zip(a, b):
        if x < y:
            return True
        if y < x:
            return False
    return False


def unique(ar, return_index=False, return_inverse=False, return_counts=False, axis=None):
    a = asarray(ar)
    if axis is None:
        vals, counts, first, inv = _sorted_unique(list(a._d))
        u = NDArray(vals, (len(vals),), a.dtype)
    elif axis == 0 and a.ndim == 2:
        rows = a.tolist()
        vals, counts, first, inv = _sorted_unique(rows, _row_lt)
        u = NDArray([x for r in vals for x in r], (len(vals), a.shape[1]), a.dtype)
    else:
        raise ModelUnsupported("unique axis")
    out = [u]
    if return_index:
        out.append(NDArray(first, (len(first),), "int"))
    if return_inverse:
        out.append(NDArray(inv, (len(inv),), "int"))
    if return_counts:
        out.append(NDArray(counts, (len(counts),), "int"))
    return out[0] if len(out) == 1 else tuple(out)


def intersect1d(ar1, ar2, assume_unique=False, return_indices=False):
    a, b = asarray(ar1), asarray(ar2)
    if not assume_unique:
        if return_indices:
            a, ia = unique(a, return_index=True)
            b, ib = unique(b, return_index=True)
        else:
            a, b = unique(a), unique(b)
    common, i1, i2 = [], [], []
    for i, x in enumerate(a._d):
        for j, y in enumerate(b._d):
            if x == y:
                common.append(x)
                i1.append(i)
                i2.append(j)
                break
    # sort by value (inputs are sorted when they come from unique(); keep a's order otherwise)
    order = []
    for k in range(len(common)):
        pos = len(order)
        while pos > 0 and common[k] < common[order[pos - 1]]:
            pos -= 1
        order.insert(pos, k)
    common = [common[k] for k in order]
    i1 = [i1[k] for k in order]
    i2 = [i2[k] for k in order]
    if not assume_unique and return_indices:
        i1 = [ia._d[k] for k in i1]
        i2 = [ib._d[k] for k in i2]
    res = NDArray(common, (len(common),))
    if return_indices:
        return res, NDArray(i1, (len(i1),), "int"), NDArray(i2, (len(i2),), "int")
    return res


def histogram(a, bins=10, range=None, density=None, weights=None):
    if weights is not None or density:
        raise ModelUnsupported("histogram: weights / density are not modelled")
    vals = asarray(a)._d
    if isinstance(bins, (int, _np.integer)) and not isinstance(bins, bool):
        # equal-width bins: n+1 edges from range[0] to range[1] (documented: range defaults to (a.min(), a.max()), and (x-0.5, x+0.5) when both coincide)
        n = int(bins)
        if n < 1:
            raise ValueError("`bins` must be positive, when an integer")
        if range is None:
            raise ModelUnsupported("histogram with an integer number of bins and no range")
        lo_, hi_ = range
        if not (lo_ <= hi_):
            raise ValueError("max must be larger than min in range parameter.")
        if lo_ == hi_:
            lo_, hi_ = lo_ - 0.5, hi_ + 0.5
        edges = [lo_ + (hi_ - lo_) * k / n for k in builtins_range(n)] + [hi_]
        vals = [v for v in vals]
        inside = [so.b_and(lo_ <= v, v <= hi_) for v in vals]     # values outside the range are ignored
        counts = []
        for k in builtins_range(n):
            last = k == n - 1
            counts.append(so.count_true([so.b_and(ok_, edges[k] <= v, (v <= edges[k + 1]) if last else (v < edges[k + 1])) for v, ok_ in zip(vals, inside)]))
        return NDArray(counts, (n,), "int"), array(edges)
    if range is not None:
        raise ModelUnsupported("histogram: explicit edges together with range")
    edges = _as_list(bins) if not isinstance(bins, NDArray) else list(bins._d)
    nb = len(edges) - 1
    if nb < 1:
        raise ValueError("`bins` must have at least 2 edges")
    counts = []
    for k in builtins_range(nb):
        lo, hi = edges[k], edges[k + 1]
        last = k == nb - 1
        cs = []
        for v in vals:
            inside = so.b_and(lo <= v, (v <= hi) if last else (v < hi))
            cs.append(inside)
        counts.append(so.count_true(cs))
    return NDArray(counts, (nb,), "int"), asarray(bins)


builtins_range = range


def fill_diagonal(a, val):
    if a.ndim != 2:
        raise ValueError("array must be at least 2-d")
    r, c = a.shape
    n = min(r, c)
    if type(val).__name__ == "DataFrame" and hasattr(val, "to_numpy"):
        val = val.to_numpy()
    if isinstance(val, NDArray):
        val = list(val._d)           # NumPy uses val.flat
    vals = _as_list(val) if _is_seq(val) else None
    if vals is not None and len(_shape_of(vals)) > 1:
        vals = _flatten(vals, len(_shape_of(vals)))
    for i in builtins_range(n):
        a._d[i * c + i] = vals[i % len(vals)] if vals is not None else val


def concatenate(arrays, axis=0):
    arrs = [asarray(x) for x in arrays]
    if not arrs:
        raise ValueError("need at least one array to concatenate")
    if all(x.ndim == 1 for x in arrs):
        out = []
        for x in arrs:
            out.extend(x._d)
        return NDArray(out, (len(out),))
    raise ModelUnsupported("concatenate n-d")


def repeat(a, repeats):
    a = asarray(a)
    n = repeats
    if hasattr(n, "var"):     # a symbolic count is realised by forking over its possible values
        if n < 0:
            raise ValueError("repeats may not contain negative values.")
        k = 0
        while not (n == k):
            k += 1
            if k > 64:
                raise ModelUnsupported("repeat count beyond modelled range")
        n = k
    n = int(n)
    if n < 0:
        raise ValueError("repeats may not contain negative values.")
    vals = a._d if a.ndim else [a._d[0]]
    out = []
    for v in vals:
        out.extend([v] * n)
    return NDArray(out, (len(out),))


def bincount(x, weights=None, minlength=0):
    if weights is not None:
        raise ModelUnsupported("bincount weights")
    vals = [int(v) for v in asarray(x)._d]
    if any(v < 0 for v in vals):
        raise ValueError("'list' argument must have no negative elements")
    n = max([int(minlength)] + [v + 1 for v in vals])
    out = [0] * n
    for v in vals:
        out[v] += 1
    return NDArray(out, (n,), _np.dtype(int))


def log(x):
    if isinstance(x, NDArray):
        return NDArray([log(v) for v in x._d], x.shape)
    if so.is_symbolic(x):
        return _UF.apply("log", x)
    if x != x:
        return math.nan
    if x == 0:
        return -math.inf
    if x < 0:
        return math.nan
    if x == math.inf:
        return math.inf
    return math.log(x)


def sqrt(x):
    if isinstance(x, NDArray):
        return NDArray([sqrt(v) for v in x._d], x.shape)
    if so.is_symbolic(x):
        return _UF.apply("pow", x, 0.5)
    return _np.sqrt(x)


def floor(x):
    if isinstance(x, NDArray):
        return NDArray([floor(v) for v in x._d], x.shape)
    if so.is_symbolic(x):
        return _sym_floor(x)
    return _np.floor(x)


def ceil(x):
    if isinstance(x, NDArray):
        return NDArray([ceil(v) for v in x._d], x.shape)
    if so.is_symbolic(x):
        return -_sym_floor(-x)
    return _np.ceil(x)


def _sym_floor(x):
    import z3
    from crosshair.tracers import NoTracing
    with NoTracing():
        v = so._z(x)
        if v.sort() == z3.IntSort():
            return x
        return so._wrap_num(z3.ToReal(z3.ToInt(v)))


def isnan(x):
    if isinstance(x, NDArray):
        return NDArray([isnan(v) for v in x._d], x.shape, bool)
    if so.is_symbolic(x):
        return False          # real-based symbolic numbers are finite by construction
    if isinstance(x, float):
        return x != x
    if isinstance(x, (int, bool)):
        return False
    raise TypeError("ufunc 'isnan' not supported for the input types")


def sort(a):
    a = asarray(a)
    idx = a.argsort()
    return NDArray([a._d[i] for i in idx._d], a.shape, a.dtype)


def amax(a):
    return asarray(a).max()


def tril(a, k=0):
    a = asarray(a)
    r, c = a.shape
    return NDArray([a._d[i * c + j] if j <= i + k else 0 for i in builtins_range(r) for j in builtins_range(c)], a.shape)


def triu(a, k=0):
    a = asarray(a)
    r, c = a.shape
    return NDArray([a._d[i * c + j] if j >= i + k else 0 for i in builtins_range(r) for j in builtins_range(c)], a.shape)


# ---------------------------------------------------------------- nondeterministic RNG
class RandomModel:
    """numpy.random as a nondeterministic oracle: every outcome the documented contract allows is a
    separate solver-visible choice.  Calls are recorded (population, size, replace) so that a
    harness can also check the *arguments* handed to the generator."""

    def __init__(self):
        self.calls = []
        self.picks = []
        self.counter = 0
        self.trace = []
        self.replaying = None

    def reset(self):
        self.calls = []
        self.picks = []
        self.counter = 0
        self.trace = []          # every elementary outcome, in order
        self.replaying = None    # when set: iterator over a recorded trace ("same seed")

    def start_replay(self):
        """the next calls see exactly the outcomes recorded so far - i.e. the generator was re-seeded with the same seed"""
        self.replaying = iter(list(self.trace))
        self.calls, self.picks = [], []

    def stop_replay(self):
        self.replaying = None

    def _pick(self, n, what):
        """a symbolic index in [0, n)"""
        from vlib import sym
        if self.replaying is not None:
            return next(self.replaying)
        self.counter += 1
        i = sym.sym_int(f"rng{self.counter}_{what}", 0, n - 1)
        for cand in builtins_range(n - 1):       # realise by forking: one branch per possible outcome
            if i == cand:
                self.trace.append(cand)
                return cand
        self.trace.append(n - 1)
        return n - 1

    def choice(self, a, size=None, replace=True, p=None):
        pop = list(builtins_range(int(a))) if isinstance(a, int) else _as_list(a)
        self.calls.append(("choice", {"population": list(pop), "size": size, "replace": replace, "p": p}))
        if p is not None:
            raise ModelUnsupported("choice with p")
        if size is None:
            if not pop:
                raise ValueError("a cannot be empty")
            return pop[self._pick(len(pop), "c")]
        n = int(size)
        if n < 0:
            raise ValueError("negative dimensions are not allowed")
        if not replace and n > len(pop):
            raise ValueError("Cannot take a larger sample than population when 'replace=False'")
        if n and not pop:
            raise ValueError("a cannot be empty unless no samples are taken")
        out = []
        remaining = list(pop)
        positions = list(builtins_range(len(pop)))
        chosen = []
        for _ in builtins_range(n):
            k = self._pick(len(remaining) if not replace else len(pop), "c")
            if replace:
                out.append(pop[k])
                chosen.append(k)
            else:
                out.append(remaining.pop(k))
                chosen.append(positions.pop(k))
        self.picks.append(chosen)
        return _build(out, (n,), None)

    def rand(self, *shape):
        from vlib import sym
        import z3
        n = _prod([int(s) for s in shape]) if shape else 1
        vals = []
        for _ in builtins_range(n):
            if self.replaying is not None:
                vals.append(next(self.replaying))
                continue
            self.counter += 1
            r = sym.sym_real(f"rng{self.counter}_u", lo=0)
            sym.assume(r < 1)
            self.trace.append(r)
            vals.append(r)
        self.calls.append(("rand", {"shape": shape}))
        if not shape:
            return vals[0]
        return NDArray(vals, tuple(int(s) for s in shape))

    def shuffle(self, x):
        n = len(x)
        self.calls.append(("shuffle", {"n": n}))
        items = [x[i] for i in builtins_range(n)]
        out = []
        while items:
            out.append(items.pop(self._pick(len(items), "s")))
        for i, v in enumerate(out):
            x[i] = v

    def seed(self, *a):
        pass


RANDOM = RandomModel()


def make_proxy(real_numpy, fallthrough_log):
    from vlib.rebind import ModuleProxy
    over = {
        "array": array, "asarray": asarray, "zeros": zeros, "ones": ones, "empty": empty, "arange": arange,
        "sum": sum_, "unique": unique, "intersect1d": intersect1d, "histogram": histogram,
        "fill_diagonal": fill_diagonal, "concatenate": concatenate, "repeat": repeat, "log": log,
        "sqrt": sqrt, "floor": floor, "ceil": ceil, "isnan": isnan, "sort": sort, "amax": amax,
        "tril": tril, "triu": triu, "random": RANDOM, "ndarray": NDArray, "bincount": bincount, "full": full, "any": any_, "all": all_, "where": where, "triu_indices": triu_indices, "tril_indices": tril_indices, "size": lambda a: asarray(a).size,
    }
    import types as _types

    def wrap(name, val):
        if callable(val) and not isinstance(val, (type, _types.ModuleType)):
            return lifted(val, "numpy." + name)
        return val
    return ModuleProxy(real_numpy, over, fallthrough_log, wrap)


def rf_cdist(queries, choices, *, scorer=None, **kw):
    from models import rf_model
    rows = rf_model.cdist_rows(queries, choices, scorer=scorer, **kw)
    r = len(rows)
    c = len(rows[0]) if r else len(_as_list(choices))
    return NDArray([v for row in rows for v in row], (r, c), "int")
