"""Contract model of the rapidfuzz entry points pyrepseq calls.

Documented behaviour transcribed (rapidfuzz 3.x docs):
* Levenshtein.distance(s1, s2, *, weights=(ins, del, sub), processor=None, score_cutoff=None,
  score_hint=None): minimum total weight of insertions / deletions / substitutions that turn s1
  into s2; if the distance is bigger than score_cutoff, score_cutoff + 1 is returned.
* Hamming.distance(s1, s2, *, pad=True, ...): number of differing positions; with pad=True (the
  default) the shorter string is padded, i.e. the length difference counts as mismatches.
* process.extract(query, choices, *, scorer, processor=None, limit=5, score_cutoff=None):
  list of (choice, score, index) with score <= score_cutoff for distance scorers, sorted by
  ascending score (stable in choice order), at most `limit` entries (limit=None: all).
* process.cdist(queries, choices, *, scorer, ..., workers=1): matrix[i, j] = scorer(queries[i],
  choices[j]).

The distance is built as ONE z3 term over the code points (no forking on character comparisons):
the path explosion of the DP is left to the solver."""
import z3
from crosshair.tracers import NoTracing

from vlib import symops as so

CALLS = []  # argument record (reset per path by the harness runtime)


def _codes(s):
    return [ord(s[i]) for i in range(len(s))]


def distance(s1, s2, *, weights=(1, 1, 1), processor=None, score_cutoff=None, score_hint=None):
    if processor is not None:
        s1, s2 = processor(s1), processor(s2)
    if weights is None:
        weights = (1, 1, 1)
    ins, dele, sub = weights
    a, b = _codes(s1), _codes(s2)
    with NoTracing():
        # bottom-up prefix DP (Wagner-Fischer) on raw z3 terms
        ins, dele, sub = so._z(ins), so._z(dele), so._z(sub)
        za, zb = [so._z(x) for x in a], [so._z(x) for x in b]
        n, m = len(za), len(zb)
        prev = [j * ins for j in range(m + 1)]
        for i in range(1, n + 1):
            cur = [i * dele]
            for j in range(1, m + 1):
                same = za[i - 1] == zb[j - 1]
                if isinstance(same, bool):
                    c_sub = prev[j - 1] + (0 if same else sub)
                else:
                    c_sub = prev[j - 1] + z3.If(same, 0, sub)
                cur.append(_min3(c_sub, prev[j] + dele, cur[j - 1] + ins))
            prev = cur
        d = prev[m]
        if score_cutoff is not None:
            c = so._z(score_cutoff)
            d = _if(d > c, c + 1, d)
        return _wrap(d)


def _if(c, x, y):
    if isinstance(c, bool):
        return x if c else y
    return z3.If(c, x, y)


def _min2(x, y):
    return _if(x <= y, x, y)


def _min3(x, y, z):
    return _min2(_min2(x, y), z)


def _wrap(d):
    if isinstance(d, z3.ExprRef):
        d = z3.simplify(d)
        if z3.is_int_value(d):
            return d.as_long()
        return so._wrap_num(d)
    return d


def hamming(s1, s2, *, pad=True, processor=None, score_cutoff=None, score_hint=None):
    if processor is not None:
        s1, s2 = processor(s1), processor(s2)
    a, b = _codes(s1), _codes(s2)
    if len(a) != len(b) and not pad:
        raise ValueError("Sequences are not the same length.")
    common = min(len(a), len(b))
    d = so.count_true([so.ne(a[i], b[i]) for i in range(common)])
    d = so.add(d, max(len(a), len(b)) - common)
    if score_cutoff is not None:
        d = so.ite(so.gt(d, score_cutoff), so.add(score_cutoff, 1), d)
    return d


def extract(query, choices, *, scorer=None, processor=None, limit=5, score_cutoff=None,
            score_hint=None, scorer_kwargs=None):
    """Distance-scorer semantics only (that is all pyrepseq uses).  Decides `score <= cutoff`
    per choice by forking (each is one solver query); ordering by score forks as well."""
    if scorer is None:
        raise NotImplementedError("model covers distance scorers only")
    CALLS.append(("extract", {"limit": limit, "score_cutoff": score_cutoff}))
    kw = dict(scorer_kwargs or {})
    scored = []
    for idx in range(len(choices)):
        ch = choices[idx]
        sc = scorer(query, ch, processor=processor, **kw) if processor is not None else scorer(query, ch, **kw)
        if score_cutoff is None or sc <= score_cutoff:
            scored.append((ch, sc, idx))
    # stable insertion sort by ascending score
    out = []
    for item in scored:
        pos = len(out)
        while pos > 0 and out[pos - 1][1] > item[1]:
            pos -= 1
        out.insert(pos, item)
    if limit is not None:
        out = out[:limit]
    return out


def cdist_rows(queries, choices, *, scorer=None, processor=None, score_cutoff=None,
               score_hint=None, score_multiplier=1, dtype=None, workers=1, scorer_kwargs=None):
    CALLS.append(("cdist", {"dtype": dtype, "score_cutoff": score_cutoff, "workers": workers,
                            "score_multiplier": score_multiplier}))
    kw = dict(scorer_kwargs or {})
    qs = list(queries)       # rapidfuzz iterates its arguments (a pandas Series yields its values, whatever its index)
    cs = list(choices)
    rows = []
    for q in qs:
        row = []
        for c in cs:
            v = scorer(q, c, **kw)
            if score_cutoff is not None:
                v = so.ite(so.gt(v, score_cutoff), so.add(score_cutoff, 1), v)
            if score_multiplier != 1:
                v = so.mul(v, score_multiplier)
            row.append(v)
        rows.append(row)
    return rows
