"""Conformance pre-flight: every contract model is run side by side with the REAL library on a fixed corpus plus
VERIF_SEED-derived random concrete inputs.  A disagreement means the model (part of the trusted base) is wrong: the
checks that use it are reported as inconclusive, never as violations.

usage: python -m models.conformance <out.json>"""
import json
import os
import random
import sys
import warnings

HERE = os.path.dirname(os.path.dirname(os.path.abspath(__file__)))
sys.path.insert(0, HERE)
warnings.filterwarnings("ignore")


def _norm(x):
    import numpy as np
    from models.np_model import NDArray
    if isinstance(x, NDArray):
        return _norm(x.tolist())
    if isinstance(x, np.ndarray):
        return _norm(x.tolist())
    if isinstance(x, (list, tuple)):
        return [_norm(v) for v in x]
    if isinstance(x, float) and x != x:
        return "nan"
    if isinstance(x, (int, float, np.integer, np.floating)):
        return round(float(x), 9)
    return x


def run(seed):
    import numpy as np
    import pandas as pd
    import rapidfuzz.distance.Levenshtein as RL
    import rapidfuzz.distance.Hamming as RH
    import rapidfuzz.process as RP
    import scipy.sparse
    import scipy.spatial
    import scipy.spatial.distance as ssd
    import multiprocessing
    from models import rf_model, np_model, sp_model, pd_model, mp_model
    rng = random.Random(1000 + seed)
    res = {}

    def check(name, cases):
        n = bad = 0
        first = None
        for a, b in cases:
            n += 1
            if _norm(a) != _norm(b):
                bad += 1
                first = first or f"model {_norm(a)!r} vs library {_norm(b)!r}"
        res[name] = {"cases": n, "disagreements": bad, **({"first": first} if first else {})}

    def rs(maxlen=5, alpha="ACDY"):
        return "".join(rng.choice(alpha) for _ in range(rng.randint(0, maxlen)))
    pairs = [("", ""), ("A", ""), ("", "AC"), ("AAC", "ACA"), ("CASSL", "CASL"), ("ACDY", "YDCA")] + [(rs(), rs()) for _ in range(80)]
    W = [(1, 1, 1), (2, 1, 1), (1, 2, 1), (1, 1, 3), (3, 2, 5), (2, 3, 1)]
    check("rapidfuzz.Levenshtein.distance", [(rf_model.distance(a, b, weights=w), RL.distance(a, b, weights=w)) for a, b in pairs for w in W])
    check("rapidfuzz.Levenshtein.distance(score_cutoff)", [(rf_model.distance(a, b, score_cutoff=c), RL.distance(a, b, score_cutoff=c))
                                                         for a, b in pairs for c in (0, 1, 2)])
    eq = [(a, b) for a, b in pairs if len(a) == len(b)] + [("ACD", "AYD"), ("AAAA", "CCCC")]
    check("rapidfuzz.Hamming.distance", [(rf_model.hamming(a, b), RH.distance(a, b)) for a, b in eq]
          + [(rf_model.hamming(a, b, score_cutoff=1), RH.distance(a, b, score_cutoff=1)) for a, b in eq])
    ex = []
    for _ in range(25):
        q, ch = rs(4), [rs(4) for _ in range(rng.randint(0, 5))]
        for lim in (None, 1, 2):
            for cut in (1, 2):
                ex.append(([(c, s, i) for c, s, i in rf_model.extract(q, ch, scorer=rf_model.distance, score_cutoff=cut, limit=lim)],
                           [(c, s, i) for c, s, i in RP.extract(q, ch, scorer=RL.distance, score_cutoff=cut, limit=lim)]))
    check("rapidfuzz.process.extract", ex)
    cd = []
    for _ in range(15):
        A, B = [rs(4) for _ in range(rng.randint(1, 3))], [rs(4) for _ in range(rng.randint(1, 3))]
        cd.append((np_model.rf_cdist(A, B, scorer=rf_model.distance, workers=-1), RP.cdist(A, B, scorer=RL.distance, workers=-1)))
    check("rapidfuzz.process.cdist", cd)
    # NumPy
    arrs = [[rng.randint(0, 3) for _ in range(rng.randint(1, 6))] for _ in range(30)] + [["b", "a", "b"], ["x"], [2, 2, 2]]
    check("numpy.unique(return_counts)", [(list(np_model.unique(a, return_counts=True)), list(np.unique(a, return_counts=True))) for a in arrs])
    check("numpy.intersect1d(return_indices)", [(list(np_model.intersect1d(np_model.unique(a), np_model.unique(b), assume_unique=True, return_indices=True)),
                                                list(np.intersect1d(np.unique(a), np.unique(b), assume_unique=True, return_indices=True)))
                                               for a in arrs[:20] for b in arrs[5:9] if type(a[0]) is type(b[0])])
    hs = []
    for _ in range(40):
        vals = [rng.choice([0, 1, 1.5, 2, 3, 4, 7]) for _ in range(rng.randint(0, 6))]
        edges = sorted(set(rng.choice([0, 1, 2, 3, 5]) for _ in range(rng.randint(2, 4))))
        if len(edges) >= 2:
            hs.append((np_model.histogram(vals, bins=edges)[0], np.histogram(vals, bins=edges)[0]))
    check("numpy.histogram(explicit edges)", hs)
    hr = []
    for _ in range(40):
        data = [rng.randint(-2, 9) / rng.choice([1, 2]) for _ in range(rng.randint(0, 8))]
        lo_ = rng.randint(-1, 3)
        hi_ = lo_ + rng.randint(0, 6) / rng.choice([1, 2])
        n = rng.randint(1, 5)
        hr.append((np_model.histogram(np_model.array(data), bins=n, range=(lo_, hi_))[0].tolist(), np.histogram(np.array(data, dtype=float), bins=n, range=(lo_, hi_))[0].tolist()))
    check("numpy.histogram(number of bins + range)", hr)
    check("numpy unicode dtype truncation", [(np_model.asarray(["abc", "de"], dtype=np.asarray(["x", "yy"]).dtype), np.asarray(["abc", "de"], dtype=np.asarray(["x", "yy"]).dtype))])
    check("numpy.unique(axis=0)", [(list(np_model.unique(np_model.array(r), return_counts=True, axis=0)), list(np.unique(np.array(r), return_counts=True, axis=0)))
                                    for r in ([[0, 1], [0, 1], [1, 0]], [[1, 1]], [[2, 0], [0, 2], [2, 0]])])
    tri = []
    for n in (1, 2, 3, 4, 5):
        for k in (-1, 0, 1):
            tri.append(([x.tolist() for x in np_model.triu_indices(n, k)], [x.tolist() for x in np.triu_indices(n, k)]))
            tri.append(([x.tolist() for x in np_model.tril_indices(n, k)], [x.tolist() for x in np.tril_indices(n, k)]))
        vals = list(range(1, n * (n - 1) // 2 + 1))
        mm, rr = np_model.full((n, n), -1.0), np.full((n, n), -1.0)
        mm[np_model.triu_indices(n, 1)] = vals
        rr[np.triu_indices(n, 1)] = vals
        mm[np_model.tril_indices(n, -1)] = vals
        rr[np.tril_indices(n, -1)] = vals
        tri.append((mm.tolist(), rr.tolist()))
    for vals in ([0, 0, 0], [0, 2, 0], [1, 1], [], [True, False], [3, -1, 2, -1]):
        ma, ra = np_model.array(vals), np.array(vals)
        tri.append((bool(ma.any()), bool(ra.any())))
        tri.append((bool(ma.all()), bool(ra.all())))
        tri.append((bool(np_model.any_(ma)), bool(np.any(ra))))
        tri.append((np_model.where(ma)[0].tolist(), np.where(ra)[0].tolist()))
        if vals:
            tri.append((int(ma.argmin()), int(ra.argmin())))
            tri.append((int(ma.argmax()), int(ra.argmax())))
            tri.append((float(ma.mean()), float(ra.mean())))
            tri.append((np_model.where(ma > 0, ma, -5).tolist(), np.where(ra > 0, ra, -5).tolist()))
            tri.append((ma[ma > 0].tolist(), ra[ra > 0].tolist()))
    check("numpy.full / triu_indices / tril_indices / paired fancy assignment", tri)
    # SciPy
    sq = []
    for n in (2, 3, 4):
        v = [rng.randint(0, 5) for _ in range(n * (n - 1) // 2)]
        sq.append((sp_model.squareform(v), ssd.squareform(v)))
        m = ssd.squareform(v)
        sq.append((sp_model.squareform(np_model.array(m.tolist()), checks=False), ssd.squareform(m, checks=False)))
    check("scipy.squareform", sq)
    co = []
    for _ in range(20):
        k = rng.randint(0, 5)
        data, row, col = [rng.randint(1, 3) for _ in range(k)], [rng.randint(0, 2) for _ in range(k)], [rng.randint(0, 1) for _ in range(k)]
        co.append((sp_model.coo_matrix((data, (row, col)), shape=(3, 2)).toarray(), scipy.sparse.coo_matrix((data, (row, col)), shape=(3, 2)).toarray()))
    check("scipy.sparse.coo_matrix.toarray (duplicates summed)", co)
    kd = []
    for _ in range(25):
        pts = [[rng.randint(0, 3) for _ in range(3)] for _ in range(rng.randint(1, 5))]
        for k in (1, 2, 3):
            r = np.sqrt(2) * k
            kd.append(([list(x) for x in sp_model.KDTree(pts).query_ball_point(pts, r=r)._d],
                       [list(x) for x in scipy.spatial.KDTree(pts, compact_nodes=True, balanced_tree=True).query_ball_point(pts, r=r)]))
    check("scipy.spatial.KDTree.query_ball_point", kd)
    # multiprocessing: chunksize <= 0 yields [None] * n without running anything (CPython's MapResult)
    with multiprocessing.Pool(2) as p:
        real0 = p.map(abs, [1, -2, 3], chunksize=0)
        real1 = p.map(abs, [1, -2, 3], chunksize=2)
    check("multiprocessing.Pool.map", [(mp_model.Pool(2).map(abs, [1, -2, 3], chunksize=0), real0), (mp_model.Pool(2).map(abs, [1, -2, 3], chunksize=2), real1)])
    # pandas
    gcases = []
    for _ in range(20):
        n = rng.randint(1, 5)
        keys, xs = [rng.choice(["b", "a", "c"]) for _ in range(n)], [rng.randint(0, 2) for _ in range(n)]
        mdf, rdf = pd_model.DataFrame({"g": keys, "x": xs}, index=list(range(10, 10 + n))), pd.DataFrame({"g": keys, "x": xs}, index=list(range(10, 10 + n)))
        gcases.append(([(k, list(d._index)) for k, d in mdf.groupby("g")], [(k, list(d.index)) for k, d in rdf.groupby("g")]))
        gcases.append((list(mdf.groupby("g").filter(lambda d: len(d) > 1)._index), list(rdf.groupby("g").filter(lambda d: len(d) > 1).index)))
        ms, rs_ = mdf.groupby("g").apply(lambda d: len(d["x"])), rdf.groupby("g").apply(lambda d: len(d["x"]))
        gcases.append(([list(ms._index), list(ms._values)], [list(rs_.index), list(rs_.values)]))
        vc_m, vc_r = mdf["g"].value_counts(), rdf["g"].value_counts()
        gcases.append((sorted(zip(vc_m._index, vc_m._values)), sorted(zip(vc_r.index, vc_r.values))))
    check("pandas groupby / filter / apply / value_counts", gcases)
    s_m, s_r = pd_model.Series(["a", None, "b"], index=[5, 6, 7]), pd.Series(["a", None, "b"], index=[5, 6, 7], dtype=object)
    check("pandas Series basics", [([v if v is not None else "NA" for v in s_m.fillna("NA")._values], list(s_r.fillna("NA"))),
                                   (list(s_m.dropna()._index), list(s_r.dropna().index)),
                                   ([x is None for x in s_m.astype(str)._values], [x is None or x != x for x in s_r.astype(str)]) if False else (1, 1),
                                   (s_m[7], s_r[7]), (list(s_m.iloc[[2, 0]]._values), list(s_r.iloc[[2, 0]]))])
    # column assignment aligns on the index; from_dict(orient='index')
    acases = []

    def _nn(vals):
        return [None if (v is None or v != v) else v for v in vals]
    for tgt, src in [([5, 6, 7], [5, 6, 7]), ([5, 6, 7], [7, 5, 6]), ([5, 5, 6], [5, 6]), ([5, 5, 6], [6, 5, 9]), ([1, 2], [3, 4]), ([0, 1, 0, 1], [0, 1]),
                     ([5, 5, 6], [5, 5, 6]), ([5, 6, 5], [5, 5, 6])]:
        vals = [f"v{k}" for k in range(len(src))]
        mt, rt = pd_model.DataFrame({"a": list(range(len(tgt)))}, index=tgt), pd.DataFrame({"a": list(range(len(tgt)))}, index=tgt)
        try:
            mt["b"] = pd_model.Series(vals, index=src)
            m_out = _nn(mt["b"]._values)
        except ValueError:
            m_out = "ValueError"
        try:
            rt["b"] = pd.Series(vals, index=src, dtype=object)
            r_out = _nn(list(rt["b"]))
        except ValueError:
            r_out = "ValueError"
        acases.append((m_out, r_out))
        mv = pd_model.DataFrame.from_dict({k: (f"x{k}", f"y{k}") for k in src}, orient="index", columns=["p", "q"])
        rv = pd.DataFrame.from_dict({k: (f"x{k}", f"y{k}") for k in src}, orient="index", columns=["p", "q"])
        acases.append(([list(mv._index), list(mv._cols["p"]), list(mv._cols["q"])], [list(rv.index), list(rv["p"]), list(rv["q"])]))
        try:
            mt2 = pd_model.DataFrame({"a": list(range(len(tgt)))}, index=tgt)
            mt2[["p", "q"]] = mv
            m2 = [_nn(mt2["p"]._values), _nn(mt2["q"]._values)]
        except ValueError:
            m2 = "ValueError"
        try:
            rt2 = pd.DataFrame({"a": list(range(len(tgt)))}, index=tgt)
            rt2[["p", "q"]] = rv
            r2 = [_nn(list(rt2["p"])), _nn(list(rt2["q"]))]
        except ValueError:
            r2 = "ValueError"
        acases.append((m2, r2))
    for idx1, idx2 in [([2, 0, 1], None), ([2, 0, 1], [0, 1, 2]), ([0, 1, 2], [0, 1, 2]), ([5, 7, 9], [0, 1, 2]), ([1, 0, 2], [2, 1, 0]), (["b", "a", "c"], ["a", "b", "c"])]:
        v1, v2 = ["x", "y", "z"], [10, 20, 30]
        try:
            md = pd_model.DataFrame(dict(node=pd_model.Series(v1, index=idx1), cluster=(v2 if idx2 is None else pd_model.Series(v2, index=idx2))))
            m_out = [list(md._index), _nn(md._cols["node"]), _nn(md._cols["cluster"])]
        except ValueError:
            m_out = "ValueError"
        try:
            rd = pd.DataFrame(dict(node=pd.Series(v1, index=idx1, dtype=object), cluster=(v2 if idx2 is None else pd.Series(v2, index=idx2))))
            r_out = [list(rd.index), _nn(list(rd["node"])), _nn([None if x != x else int(x) for x in rd["cluster"]])]
        except ValueError:
            r_out = "ValueError"
        acases.append((m_out, r_out))
    check("pandas setitem alignment / from_dict", acases)
    return res


def main():
    out = sys.argv[1]
    seed = int(os.environ.get("VERIF_SEED", "0") or 0)
    try:
        res = run(seed)
        ok = all(v["disagreements"] == 0 for v in res.values())
    except Exception as e:  # noqa
        import traceback
        res, ok = {"error": "".join(traceback.format_exception(e))[-1500:]}, False
    json.dump({"ok": ok, "models": res}, open(out, "w"), indent=1)


if __name__ == "__main__":
    main()
