"""C12 - one-edit neighbourhood generators and the set utilities on them are exact.

Real code (pyrepseq/distance.py): levenshtein_neighbors, hamming_neighbors, next_nearest_neighbors, find_neighbor_pairs,
find_neighbor_pairs_index, calculate_neighbor_numbers, isdist1, nndist_hamming (_isdist2_hamming, _isdist3_hamming)."""
from vlib.rt import Condition
from harness import common as hc

PROPERTY = "C12"
BOUNDS = ("x: free string of length 0..3 (4 thorough); alphabet: a SYMBOLIC string of 1-3 pairwise distinct letters (so every alphabet "
          "of that size, and every relation between its letters and those of x) and the concrete 20 letters for |x| <= 1; "
          "next_nearest_neighbors: |x| <= 2, maxdistance <= 2 (3 for |x| <= 1), alphabets of 2 letters; set utilities: 2-3 pairwise "
          "distinct strings of length <= 2 over a 2-3 letter alphabet; nndist_hamming: |seq| <= 3, 1-2 equal-length references, "
          "maxdist 1..4, pyrepseq's alphabet constant rebound to 2-3 letters")
OUTSIDE = ["|x| > 4, alphabets with more than 3 symbolic letters", "reference sets larger than 3"]
ASSUMPTIONS = ["CrossHair symbolic str semantics + display plugin + z3", "NumPy subset model (calculate_neighbor_numbers)"]


def _sym_alphabet(sym, so, m, name="al"):
    cps = sym.sym_codepoints(name, m)
    for i in range(m):
        for j in range(i):
            sym.assume(so.ne(cps[i], cps[j]))
    s = ""
    for c in cps:
        s = s + chr(c)
    sym.register(name, "str", cps)
    return s


def _naive_lev(x, al):
    """all naive single edits as (string, valid) with valid = 'differs from x' (a term)"""
    from vlib import symops as so
    out = []
    for i in range(len(x)):
        out.append((x[:i] + x[i + 1:], True))
    for i in range(len(x)):
        for a in range(len(al)):
            out.append((x[:i] + al[a] + x[i + 1:], so.ne(ord(al[a]), ord(x[i]))))
    for i in range(len(x) + 1):
        for a in range(len(al)):
            out.append((x[:i] + al[a] + x[i:], True))
    return out


def _naive_ham(x, al, positions=None):
    from vlib import symops as so
    out = []
    for i in (range(len(x)) if positions is None else positions):
        for a in range(len(al)):
            out.append((x[:i] + al[a] + x[i + 1:], so.ne(ord(al[a]), ord(x[i]))))
    return out


def _codes(strs):
    """code points of each string (ord() under tracing), then raw z3 terms"""
    from vlib import symops as so
    return [[so._z(ord(st[i])) for i in range(len(st))] for st in strs]


def _exact_once(outs, cands):
    """symbolic bool: list `outs` has no repeats and equals, as a set, {c : valid} over cands = [(string, valid)].
    Built as ONE z3 formula under NoTracing (strings have concrete lengths)."""
    import z3
    from crosshair.tracers import NoTracing
    from vlib import symops as so
    oc = _codes(outs)
    cc = _codes([c for c, _ in cands])
    with NoTracing():
        valid = [so._z(v) for _, v in cands]

        def eq(a, b):
            terms = []
            for x, y in zip(a, b):
                t = x == y
                if isinstance(t, bool):
                    if not t:
                        return False
                    continue
                terms.append(t)
            return z3.And(*terms) if terms else True

        def zand(ts):
            ts = [t for t in ts if t is not True]
            if any(t is False for t in ts):
                return False
            return z3.And(*ts) if ts else True

        def zor(ts):
            ts = [t for t in ts if t is not False]
            if any(t is True for t in ts):
                return True
            return z3.Or(*ts) if ts else False

        def znot(t):
            return (not t) if isinstance(t, bool) else z3.Not(t)

        conds = []
        for i in range(len(oc)):
            for j in range(i):
                if len(oc[i]) == len(oc[j]):
                    conds.append(znot(eq(oc[i], oc[j])))
        for o in oc:
            conds.append(zor([zand([valid[k], eq(o, c)]) for k, c in enumerate(cc) if len(c) == len(o)]))
        for k, c in enumerate(cc):
            conds.append(zor([znot(valid[k])] + [eq(o, c) for o in oc if len(o) == len(c)]))
        res = zand(conds)
        return res if isinstance(res, bool) else so._wrap_bool(res)


def _realize(x):
    from crosshair.core import deep_realize
    try:
        return repr(deep_realize(x))
    except Exception:  # noqa
        return "<unrealisable>"


# ---------------------------------------------------------------- generators
def _body_gen(kind, n, m, sub=None):
    def body():
        from pyrepseq import distance
        from vlib import sym, symops as so
        x = sym.sym_str("x", n)
        al = hc.AMINO if m == 20 else _sym_alphabet(sym, so, m)
        if kind == "lev":
            outs = list(distance.levenshtein_neighbors(x, al))
            cands = _naive_lev(x, al)
        else:
            positions = None
            if sub:
                positions = [i for i in range(n) if bool(sym.sym_bool(f"pos{i}"))]
            outs = list(distance.hamming_neighbors(x, al, variable_positions=positions)) if sub else list(distance.hamming_neighbors(x, al))
            cands = _naive_ham(x, al, positions)
        return _exact_once(outs, cands), (lambda: f"{kind} neighbours: {_realize(outs)}")
    return body


def _edits_lev(x, al):
    out = set()
    for i in range(len(x)):
        out.add(x[:i] + x[i + 1:])
        for a in al:
            out.add(x[:i] + a + x[i + 1:])
    for i in range(len(x) + 1):
        for a in al:
            out.add(x[:i] + a + x[i:])
    out.discard(x)
    return out


def _edits_ham(x, al, positions=None):
    out = set()
    for i in (range(len(x)) if positions is None else positions):
        for a in al:
            out.add(x[:i] + a + x[i + 1:])
    out.discard(x)
    return out


def _replay_gen(kind, n, m, sub=None):
    def replay(inputs):
        from pyrepseq import distance
        x = inputs["x"]
        al = hc.AMINO if m == 20 else inputs["al"]
        if kind == "lev":
            outs = list(distance.levenshtein_neighbors(x, al))
            want = _edits_lev(x, al)
        else:
            positions = [i for i in range(n) if inputs.get(f"pos{i}")] if sub else None
            outs = list(distance.hamming_neighbors(x, al, variable_positions=positions)) if sub else list(distance.hamming_neighbors(x, al))
            want = _edits_ham(x, al, positions)
        ok = len(outs) == len(set(outs)) and set(outs) == want
        return ok, (f"{kind}_neighbors({x!r}, {al!r}): {len(outs)} yielded / {len(set(outs))} distinct; missing {sorted(want - set(outs))[:5]} "
                    f"extra {sorted(set(outs) - want)[:5]}")
    return replay


# ---------------------------------------------------------------- next_nearest_neighbors
def _body_nnn(kind, n, letters, maxd):
    def body():
        from pyrepseq import distance
        from vlib import sym, symops as so
        x = sym.sym_str("x", n, among=letters)
        if kind == "lev":
            nb = lambda y: distance.levenshtein_neighbors(y, letters)
            step = lambda y: [c for c, v in _naive_lev(y, letters)]
        else:
            nb = lambda y: distance.hamming_neighbors(y, letters)
            step = lambda y: [c for c, v in _naive_ham(y, letters)]
        got = distance.next_nearest_neighbors(x, nb, maxdistance=maxd)
        outs = list(got)
        frontier, cands = [x], []
        for _ in range(maxd):
            nxt = []
            for y in frontier:
                nxt.extend(step(y))
            cands.extend(nxt)
            frontier = nxt
        cands = [(c, so.b_not(hc.str_eq_term(c, x)) if len(c) == len(x) else True) for c in cands]
        return _exact_once(outs, cands), (lambda: f"next_nearest_neighbors -> {_realize(outs)}")
    return body


def _replay_nnn(kind, n, letters, maxd):
    def replay(inputs):
        from pyrepseq import distance
        x = inputs["x"]
        nb = (lambda y: distance.levenshtein_neighbors(y, letters)) if kind == "lev" else (lambda y: distance.hamming_neighbors(y, letters))
        got = distance.next_nearest_neighbors(x, nb, maxdistance=maxd)
        step = (lambda y: _edits_lev(y, letters)) if kind == "lev" else (lambda y: _edits_ham(y, letters))
        ball, frontier = set(), {x}
        for _ in range(maxd):
            frontier = set().union(*[step(y) for y in frontier]) if frontier else set()
            ball |= frontier
        ball.discard(x)
        return set(got) == ball and isinstance(got, set), f"next_nearest_neighbors({x!r}, {kind}, {maxd}): missing {sorted(ball - set(got))[:5]} extra {sorted(set(got) - ball)[:5]}"
    return replay


# ---------------------------------------------------------------- set utilities
def _d1_term(kind, a, b):
    from vlib import symops as so
    if kind == "ham":
        h = hc.ham_term(a, b)
        return False if h is None else so.eq(h, 1)
    return so.eq(hc.lev_term(a, b), 1)


def _distinct_strs(sym, so, strs):
    for i in range(len(strs)):
        for j in range(i):
            sym.assume(so.b_not(hc.str_eq_term(strs[i], strs[j])))


def _body_util(fn, kind, shape, letters):
    def body():
        from pyrepseq import distance
        from vlib import sym, symops as so
        seqs = [sym.sym_str(f"s{i}", n, among=letters) for i, n in enumerate(shape)]
        nbf = (lambda y: distance.levenshtein_neighbors(y, letters)) if kind == "lev" else (lambda y: distance.hamming_neighbors(y, letters))
        n = len(seqs)
        if fn in ("find_neighbor_pairs", "find_neighbor_pairs_index"):
            _distinct_strs(sym, so, seqs)
        if fn == "find_neighbor_pairs_repeats":
            # the input may repeat a sequence: each unordered pair of DISTINCT strings at distance 1 is still listed once
            got = distance.find_neighbor_pairs(seqs, neighborhood=nbf)
            firsts = [so.b_and(*[so.b_not(hc.str_eq_term(seqs[j], seqs[l])) for l in range(j)]) for j in range(n)]
            conds = []
            for i in range(n):
                for j in range(i):
                    hits = []
                    for (a, b) in got:
                        m1 = so.b_and(hc.str_eq_term(a, seqs[i]), hc.str_eq_term(b, seqs[j]))
                        m2 = so.b_and(hc.str_eq_term(a, seqs[j]), hc.str_eq_term(b, seqs[i]))
                        hits.append(so.b_or(m1, m2))
                    conds.append(so.b_or(so.b_not(so.b_and(firsts[i], firsts[j])), so.eq(so.count_true(hits), so.ite(_d1_term(kind, seqs[i], seqs[j]), 1, 0))))
            for (a, b) in got:
                conds.append(so.b_or(*[so.b_and(hc.str_eq_term(a, seqs[i]), hc.str_eq_term(b, seqs[j]), _d1_term(kind, seqs[i], seqs[j]))
                                       for i in range(n) for j in range(n) if i != j]))
            return so.b_and(*conds), (lambda: f"find_neighbor_pairs -> {_realize(got)}")
        if fn == "find_neighbor_pairs":
            got = distance.find_neighbor_pairs(seqs, neighborhood=nbf)
            conds = []
            for i in range(n):
                for j in range(i):
                    hits = []
                    for (a, b) in got:
                        m1 = so.b_and(hc.str_eq_term(a, seqs[i]), hc.str_eq_term(b, seqs[j]))
                        m2 = so.b_and(hc.str_eq_term(a, seqs[j]), hc.str_eq_term(b, seqs[i]))
                        hits.append(so.b_or(m1, m2))
                    conds.append(so.eq(so.count_true(hits), so.ite(_d1_term(kind, seqs[i], seqs[j]), 1, 0)))
            for (a, b) in got:      # nothing else: every reported pair is a pair of input sequences at distance 1
                conds.append(so.b_or(*[so.b_and(hc.str_eq_term(a, seqs[i]), hc.str_eq_term(b, seqs[j]), _d1_term(kind, seqs[i], seqs[j]))
                                       for i in range(n) for j in range(n) if i != j]))
            return so.b_and(*conds), (lambda: f"find_neighbor_pairs -> {_realize(got)}")
        if fn == "find_neighbor_pairs_index":
            got = distance.find_neighbor_pairs_index(seqs, neighborhood=nbf)
            seen = {}
            for (i, j) in got:
                key = (int(i), int(j))
                seen[key] = seen.get(key, 0) + 1
            conds = []
            for i in range(n):
                for j in range(n):
                    if i != j:
                        conds.append(so.eq(seen.get((i, j), 0), so.ite(_d1_term(kind, seqs[i], seqs[j]), 1, 0)))
            ok_keys = all(0 <= i < n and 0 <= j < n and i != j for (i, j) in seen)
            return so.b_and(ok_keys, *conds), (lambda: f"find_neighbor_pairs_index -> {_realize(got)}")
        if fn == "calculate_neighbor_numbers":
            got = distance.calculate_neighbor_numbers(seqs, neighborhood=nbf)
            conds = []
            for i in range(n):
                # number of DISTINCT reference strings at distance 1 (reference = set(seqs))
                firsts = [so.b_and(*[so.b_not(hc.str_eq_term(seqs[j], seqs[l])) for l in range(j)]) for j in range(n)]
                want = so.count_true([so.b_and(firsts[j], _d1_term(kind, seqs[i], seqs[j])) for j in range(n)])
                conds.append(so.eq(got[i], want))
            return so.b_and(len(got) == n, *conds), (lambda: f"calculate_neighbor_numbers -> {_realize(got.tolist())}")
        if fn == "isdist1":
            x, ref = seqs[0], seqs[1:]
            from crosshair.simplestructs import ShellMutableSet
            rs = ShellMutableSet()
            for r in ref:
                rs.add(r)
            got = distance.isdist1(x, rs, neighborhood=nbf)
            want = so.b_or(*[_d1_term(kind, x, r) for r in ref])
            return so.b_iff(got, want), (lambda: f"isdist1 -> {got}")
        raise ValueError(fn)
    return body


def _replay_util(fn, kind, shape, letters):
    def replay(inputs):
        from pyrepseq import distance
        seqs = [inputs[f"s{i}"] for i in range(len(shape))]
        nbf = (lambda y: distance.levenshtein_neighbors(y, letters)) if kind == "lev" else (lambda y: distance.hamming_neighbors(y, letters))
        d = (lambda a, b: hc.lev(a, b)) if kind == "lev" else (lambda a, b: hc.ham(a, b))
        n = len(seqs)
        if fn in ("find_neighbor_pairs", "find_neighbor_pairs_repeats"):
            got = distance.find_neighbor_pairs(list(seqs), neighborhood=nbf)
            want = {frozenset((seqs[i], seqs[j])) for i in range(n) for j in range(i) if d(seqs[i], seqs[j]) == 1}
            g = [frozenset(p) for p in got]
            return len(g) == len(set(g)) and set(g) == want, f"find_neighbor_pairs({seqs!r}) = {got!r}"
        if fn == "find_neighbor_pairs_index":
            got = distance.find_neighbor_pairs_index(list(seqs), neighborhood=nbf)
            want = {(i, j) for i in range(n) for j in range(n) if i != j and d(seqs[i], seqs[j]) == 1}
            return len(got) == len(set(got)) and set(got) == want, f"find_neighbor_pairs_index({seqs!r}) = {got!r}, expected {sorted(want)}"
        if fn == "calculate_neighbor_numbers":
            got = list(distance.calculate_neighbor_numbers(list(seqs), neighborhood=nbf))
            want = [len({r for r in set(seqs) if d(s, r) == 1}) for s in seqs]
            return [int(g) for g in got] == want, f"calculate_neighbor_numbers({seqs!r}) = {got!r}, expected {want}"
        if fn == "isdist1":
            got = distance.isdist1(seqs[0], set(seqs[1:]), neighborhood=nbf)
            want = any(d(seqs[0], r) == 1 for r in seqs[1:])
            return bool(got) == want, f"isdist1({seqs[0]!r}, {set(seqs[1:])!r}) = {got!r}"
    return replay


# ---------------------------------------------------------------- nndist_hamming
def _body_nnd(n, nref, letters):
    def body():
        from pyrepseq import distance
        from vlib import sym, symops as so
        from crosshair.simplestructs import ShellMutableSet
        seq = sym.sym_str("seq", n, among=letters)
        rlen = n if nref >= 0 else n + 1            # nref < 0: |nref| references of ANOTHER length (never Hamming neighbours)
        refs = [sym.sym_str(f"r{i}", rlen, among=letters) for i in range(abs(nref))]
        maxdist = sym.sym_int("maxdist", 1, 4)
        rs = ShellMutableSet()
        for r in refs:
            rs.add(r)
        got = distance.nndist_hamming(seq, rs, maxdist=maxdist)
        same_len = [hc.ham_term(seq, r) for r in refs if len(r) == len(seq)]
        want = so.smin(*(same_len + [maxdist])) if same_len else maxdist
        return so.eq(got, want), (lambda: f"nndist_hamming -> {_realize(got)}")
    return body


def _replay_nnd(n, nref, letters):
    def replay(inputs):
        from pyrepseq import distance
        seq = inputs["seq"]
        refs = {inputs[f"r{i}"] for i in range(abs(nref))}
        md = int(inputs["maxdist"])
        got = distance.nndist_hamming(seq, refs, maxdist=md)
        want = min([hc.ham(seq, r) for r in refs if len(r) == len(seq)] + [md])
        return got == want, f"nndist_hamming({seq!r}, {refs!r}, maxdist={md}) = {got!r}, expected {want}"
    return replay


def _setup_alpha(letters):
    def setup():
        import pyrepseq  # noqa
        hc.set_alphabet(letters)
    return setup


def conditions(tier):
    out = []
    T = tier == "thorough"
    gens = [(0, 1), (0, 2), (1, 1), (1, 2), (1, 3), (2, 1), (2, 2), (2, 3), (3, 1), (3, 2)]
    if T:
        gens += [(3, 3), (4, 1), (4, 2)]
    for n, m in gens:
        out.append(Condition(f"C12/levenshtein_neighbors/|x|={n}/|al|={m}", _body_gen("lev", n, m), _replay_gen("lev", n, m),
                             budget=300 if not T else 3000, bounds=f"x free of length {n}, alphabet of {m} symbolic distinct letters"))
        if n >= 1:
            out.append(Condition(f"C12/hamming_neighbors/|x|={n}/|al|={m}", _body_gen("ham", n, m), _replay_gen("ham", n, m),
                                 budget=300 if not T else 3000, bounds=f"x free of length {n}, alphabet of {m} symbolic distinct letters"))
    for n in (0, 1) + ((2,) if T else ()):
        out.append(Condition(f"C12/levenshtein_neighbors/|x|={n}/|al|=20", _body_gen("lev", n, 20), _replay_gen("lev", n, 20),
                             budget=300 if not T else 3000, bounds=f"x free of length {n}, the 20 amino-acid letters"))
    for n in (1,) + ((2,) if T else ()):
        out.append(Condition(f"C12/hamming_neighbors/|x|={n}/|al|=20", _body_gen("ham", n, 20), _replay_gen("ham", n, 20),
                             budget=300 if not T else 3000, bounds=f"x free of length {n}, 20 letters"))
    for n, m in [(2, 2), (3, 2)]:
        out.append(Condition(f"C12/hamming_neighbors/|x|={n}/|al|={m}/positions", _body_gen("ham", n, m, sub=True),
                             _replay_gen("ham", n, m, sub=True), budget=300, bounds=f"symbolic subset of variable positions, |x|={n}"))
    for kind, n, maxd in [("lev", 0, 2), ("lev", 1, 2), ("ham", 2, 2), ("ham", 1, 2), ("lev", 0, 3), ("ham", 2, 3), ("lev", 1, 1)] \
            + ([("lev", 2, 2), ("lev", 1, 3), ("ham", 3, 3)] if T else []):
        out.append(Condition(f"C12/next_nearest_neighbors/{kind}/|x|={n}/d={maxd}", _body_nnn(kind, n, "AC", maxd), _replay_nnn(kind, n, "AC", maxd),
                             budget=400 if not T else 3000, bounds=f"x over AC of length {n}, maxdistance={maxd}, {kind} neighbourhood"))
    for fn in ("find_neighbor_pairs", "find_neighbor_pairs_index", "calculate_neighbor_numbers", "isdist1"):
        for kind, shape in [("lev", (1, 1)), ("lev", (2, 1)), ("lev", (2, 1, 1)), ("ham", (2, 2)), ("ham", (2, 2, 2)), ("ham", (2, 1, 2))]:
            if fn == "find_neighbor_pairs" and kind == "lev" and len(shape) == 3 and not T:
                pass
            out.append(Condition(f"C12/{fn}/{kind}/len={','.join(map(str, shape))}", _body_util(fn, kind, shape, "AC"),
                                 _replay_util(fn, kind, shape, "AC"), budget=400 if not T else 3000, models=("np",),
                                 bounds=f"{fn} on strings of lengths {shape} over AC, {kind} neighbourhood"))
    for kind, shape in [("ham", (2, 2, 2)), ("lev", (1, 1, 1)), ("ham", (1, 1, 1))]:
        out.append(Condition(f"C12/find_neighbor_pairs/repeats-allowed/{kind}/len={','.join(map(str, shape))}", _body_util("find_neighbor_pairs_repeats", kind, shape, "AC"),
                             _replay_util("find_neighbor_pairs_repeats", kind, shape, "AC"), budget=400 if not T else 3000, models=("np",),
                             bounds=f"find_neighbor_pairs on strings of lengths {shape} over AC that may repeat, {kind} neighbourhood: each pair of distinct strings listed once"))
    for n, nref, letters in [(1, 1, "AC"), (2, 1, "AC"), (2, 2, "AC"), (3, 1, "AC"), (2, 1, "ACD"), (1, 0, "AC"), (2, 0, "AC"), (3, 0, "AC"),
                             (2, -1, "AC"), (0, 0, "AC")] + ([(3, 2, "AC"), (3, 1, "ACD"), (4, 1, "AC")] if T else []):
        out.append(Condition(f"C12/nndist_hamming/|seq|={n}/refs={nref}/{letters}", _body_nnd(n, nref, letters), _replay_nnd(n, nref, letters),
                             budget=400 if not T else 3000, setup=_setup_alpha(letters),
                             bounds=f"seq and {nref} references of length {n} over {letters}, maxdist symbolic 1..4"))
    return out
