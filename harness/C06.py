"""C06 - pc and its variance estimator are unbiased under multinomial sampling.

For fixed (N, K) the expectation is a finite sum over count vectors; the universal quantifier is over the probability
vector p - a continuum.  The REAL pc_n / varpc_n / pc are evaluated exactly (object arrays of Fraction) on every composition
of N into K parts; the expectation identity is then a polynomial identity in free reals p_1..p_K whose negation z3 must
refute (`unsat` = holds for ALL real p, in particular on the simplex).  Vacuity control per (N, K): the same query with
the biased N^2 denominator must be `sat`.  stdpc_n / stdpc: symbolic counts / labels through the SMT tracing engine."""
import itertools
from fractions import Fraction
from math import comb

from vlib.rt import Condition

PROPERTY = "C06"
BOUNDS = ("K <= 3 categories and N <= 6 draws (quick) / K <= 5, N <= 10 (thorough); two-sample N1, N2 <= 3 (quick) / <= 5; "
          "p, q free reals (the identity is homogeneous, so it holds on the simplex iff it holds everywhere); stdpc_n on symbolic "
          "count vectors of length <= 4 with N >= 4; stdpc on 4-5 symbolic labels")
OUTSIDE = ["N, K beyond the range (no induction on N)", "IEEE rounding in pc's final division (the float is lifted to the unique "
           "rational with the known denominator)", "the square root itself (uninterpreted function)"]
ASSUMPTIONS = ["z3 nonlinear real arithmetic (polynomial identity)", "Fraction arithmetic through NumPy object arrays is exact",
               "x**0.5 is an uninterpreted function pow(x, 1/2)"]


def compositions(N, K):
    if K == 1:
        yield (N,)
        return
    for first in range(N + 1):
        for rest in compositions(N - first, K - 1):
            yield (first,) + rest


def multinom(n):
    N, r = sum(n), 1
    for x in n:
        r *= comb(N, x)
        N -= x
    return r


def _exact(fn, counts):
    import numpy as np
    arr = np.array([Fraction(int(c)) for c in counts], dtype=object)
    return Fraction(fn(arr))


def _lift(x, den):
    """float -> the unique rational k/den within 1e-9 (pc divides two exact integers once)"""
    k = round(float(x) * den)
    fr = Fraction(k, den)
    if abs(float(fr) - float(x)) > 1e-9:
        raise AssertionError(f"{x} is not a multiple of 1/{den}")
    return fr


# the categories of "any discrete distribution" are arbitrary labels: besides the integers 0..K-1 the same identities are
# decided with string categories that are PREFIXES of one another and of different widths (NumPy's fixed-width string
# dtypes truncate silently), in both width orders, and with the empty string among the categories
LABELS = {"int": None,
          "prefix": ["CAS", "CASS", "CASSL", "CASSLG", "CASSLGQ"],
          "prefix-rev": ["CASSLGQ", "CASSLG", "CASSL", "CASS", "CAS"],
          "mixed": ["CA", "", "CASS", "C", "CAS"]}


def _sample(counts, labels="int"):
    names = LABELS[labels]
    out = []
    for label, c in enumerate(counts):
        out += [label if names is None else names[label]] * c
    return out


def _poly(z3, ps, n):
    t = z3.RealVal(1)
    for p, e in zip(ps, n):
        for _ in range(e):
            t = t * p
    return t


def _rv(z3, fr):
    fr = Fraction(fr)
    return z3.RealVal(fr.numerator) / z3.RealVal(fr.denominator) if fr.denominator != 1 else z3.RealVal(fr.numerator)


def _body_pc(K, N, which, biased=False, labels="int"):
    def body(E):
        import z3
        from pyrepseq import stats
        ps = [E.real(f"p{i}", lo=0).term for i in range(K)]
        S1 = sum(ps[1:], ps[0])
        S2 = sum([p * p for p in ps[1:]], ps[0] * ps[0])
        lhs = z3.RealVal(0)
        lhs_sq = z3.RealVal(0)
        lhs_var = z3.RealVal(0)
        for n in compositions(N, K):
            if which == "pc_n":
                val = _exact(stats.pc_n, n)
            elif which == "pc":
                val = _lift(stats.pc(_sample(n, labels)), N * (N - 1))
            else:
                val = _exact(stats.pc_n, n)
            if biased:
                val = Fraction(sum(x * x for x in n), N * N)
            w = multinom(n)
            mono = _poly(z3, ps, n)
            lhs = lhs + _rv(z3, w * val) * mono
            if which == "varpc_n":
                # ONE count array handed to pc_n and then to varpc_n, as a caller holding its counts in an array would do
                import numpy as _np
                shared = _np.array([Fraction(int(c)) for c in n], dtype=object)
                val = Fraction(stats.pc_n(shared))
                lhs_sq = lhs_sq + _rv(z3, w * val * val) * mono
                lhs_var = lhs_var + _rv(z3, w * Fraction(stats.varpc_n(shared))) * mono
        def power(b, e):
            r = z3.RealVal(1)
            for _ in range(e):
                r = r * b
            return r
        if which == "varpc_n":
            claim = lhs_var == lhs_sq - S2 * S2 * power(S1, N - 4)
        else:
            claim = lhs == S2 * power(S1, N - 2)
        claim = z3.simplify(claim, som=True)
        if biased:
            # vacuity control: for the biased (N^2) estimator the negated identity must be SATISFIABLE
            r, _ = E._check(z3.Not(claim))
            if r not in ("sat", "unsat"):
                E.unknowns += 1               # solver gave up on the control: inconclusive, not a failed control
                return (True, f"vacuity control undecided: {r}")
            return (r == "sat", f"vacuity control failed: negated biased identity is {r}")
        return (claim, f"E[{which}] identity for K={K}, N={N}")
    return body


def _body_pc2(K, N1, N2, biased=False, labels="int"):
    def body(E):
        import z3
        from pyrepseq import stats
        ps = [E.real(f"p{i}", lo=0).term for i in range(K)]
        qs = [E.real(f"q{i}", lo=0).term for i in range(K)]
        Sp, Sq = sum(ps[1:], ps[0]), sum(qs[1:], qs[0])
        Spq = sum([p * q for p, q in zip(ps[1:], qs[1:])], ps[0] * qs[0])
        lhs = z3.RealVal(0)
        for n in compositions(N1, K):
            for m in compositions(N2, K):
                val = _lift(stats.pc(_sample(n, labels), _sample(m, labels)), N1 * N2)
                if biased:
                    val = val + Fraction(1, N1 * N2)
                lhs = lhs + _rv(z3, multinom(n) * multinom(m) * val) * _poly(z3, ps, n) * _poly(z3, qs, m)
        def power(b, e):
            r = z3.RealVal(1)
            for _ in range(e):
                r = r * b
            return r
        claim = z3.simplify(lhs == Spq * power(Sp, N1 - 1) * power(Sq, N2 - 1), som=True)
        if biased:
            r, _ = E._check(z3.Not(claim))
            if r not in ("sat", "unsat"):
                E.unknowns += 1
                return (True, f"vacuity control undecided: {r}")
            return (r == "sat", f"vacuity control failed: {r}")
        return (claim, f"E[pc(a,b)] identity K={K} N1={N1} N2={N2}")
    return body


def _replay_identity(K, N, which, labels="int"):
    """A counterexample is a probability-like vector p for which the identity fails: re-evaluate both sides exactly."""
    def replay(inputs):
        from vlib.smt import from_model
        from pyrepseq import stats
        ps = [from_model(inputs.get(f"p{i}", 0)) for i in range(K)]
        S1, S2 = sum(ps), sum(p * p for p in ps)
        lhs = lhs_sq = lhs_var = Fraction(0)
        for n in compositions(N, K):
            mono = Fraction(1)
            for p, e in zip(ps, n):
                mono *= p ** e
            val = _lift(stats.pc(_sample(n, labels)), N * (N - 1)) if which == "pc" else _exact(stats.pc_n, n)
            w = multinom(n)
            lhs += w * val * mono
            if which == "varpc_n":
                import numpy as _np
                shared = _np.array([Fraction(int(c)) for c in n], dtype=object)          # exact arithmetic through the real NumPy
                val = Fraction(stats.pc_n(shared))
                lhs_sq += w * val * val * mono
                lhs_var += w * Fraction(stats.varpc_n(shared)) * mono
        if which == "varpc_n":
            ok = lhs_var == lhs_sq - S2 * S2 * S1 ** (N - 4)
            return ok, f"K={K} N={N} p={ps}: E[varpc_n]={lhs_var} but Var(pc)={lhs_sq - S2 * S2 * S1 ** (N - 4)}"
        ok = lhs == S2 * S1 ** (N - 2)
        return ok, f"K={K} N={N} p={[str(p) for p in ps]}: E[{which}]={lhs} but sum p^2 (sum p)^(N-2)={S2 * S1 ** (N - 2)}"
    return replay


def _replay_pc2(K, N1, N2, labels="int"):
    def replay(inputs):
        from vlib.smt import from_model
        from pyrepseq import stats
        ps = [from_model(inputs.get(f"p{i}", 0)) for i in range(K)]
        qs = [from_model(inputs.get(f"q{i}", 0)) for i in range(K)]
        lhs = Fraction(0)
        for n in compositions(N1, K):
            for m in compositions(N2, K):
                mono = Fraction(1)
                for p, e in zip(ps, n):
                    mono *= p ** e
                for q, e in zip(qs, m):
                    mono *= q ** e
                lhs += multinom(n) * multinom(m) * _lift(stats.pc(_sample(n, labels), _sample(m, labels)), N1 * N2) * mono
        rhs = sum(p * q for p, q in zip(ps, qs)) * sum(ps) ** (N1 - 1) * sum(qs) ** (N2 - 1)
        return lhs == rhs, f"K={K} N1={N1} N2={N2} p={ps} q={qs}: E[pc(a,b)]={lhs}, sum p_i q_i (...)={rhs}"
    return replay


def _replay_true(*a):
    def replay(inputs):
        return True, "control"
    return replay


# ---- stdpc_n / stdpc through the tracing engine
def _body_std_n(K):
    def body(E):
        import numpy as np
        import z3
        from pyrepseq import stats
        cs = [E.int(f"c{i}", 0) for i in range(K)]
        N = sum([c.term for c in cs[1:]], cs[0].term)
        E.assume(N >= 4)
        arr = np.array(cs, dtype=object)
        got = stats.stdpc_n(arr)
        var = stats.varpc_n(arr)
        want = var ** 0.5
        return (got.term == want.term, f"stdpc_n={got} vs varpc_n**0.5={want}")
    return body


def _replay_std_n(K):
    def replay(inputs):
        import numpy as np
        from pyrepseq import stats
        c = np.array([int(inputs[f"c{i}"]) for i in range(K)])
        a, b = stats.stdpc_n(c), stats.varpc_n(c) ** 0.5
        ok = (a != a and b != b) or a == b or (abs(a) != float('inf') and abs(b) != float('inf') and abs(a - b) <= 1e-12 * max(1.0, abs(b)))
        return ok, f"stdpc_n({c.tolist()})={a!r}, varpc_n**0.5={b!r}"
    return replay


def _body_std(n):
    def body(E):
        import numpy as np
        import z3
        from pyrepseq import stats
        xs = [E.int(f"x{i}", 0, n) for i in range(n)]
        got = stats.stdpc(list(xs))
        # oracle: multiplicities as terms, then the REAL varpc_n on them
        ts = [x.term for x in xs]
        first = [z3.And(*[ts[i] != ts[j] for j in range(i)]) if i else z3.BoolVal(True) for i in range(n)]
        from vlib.smt import Sym
        counts = [Sym(E, z3.If(first[i], z3.Sum([z3.If(ts[j] == ts[i], 1, 0) for j in range(n)]), 0)) for i in range(n)]
        var = stats.varpc_n(np.array(counts, dtype=object))
        want = var ** 0.5
        if isinstance(got, Sym):
            return (got.term == want.term, f"stdpc={got} vs {want}")
        # all multiplicities were decided on this path: NumPy computed a concrete float
        g = float(got)
        if g != g:
            return (var.term < 0, f"stdpc=nan but the variance estimate {var} is not negative")
        fr = Fraction(g * g)
        sq = z3.RealVal(fr.numerator) / z3.RealVal(fr.denominator)
        tol = z3.RealVal("1/1000000000")
        return (z3.And(var.term - sq <= tol, sq - var.term <= tol), f"stdpc={g!r}, variance estimate {var}")
    return body


def _replay_std(n):
    def replay(inputs):
        import numpy as np
        from pyrepseq import stats
        xs = [int(inputs[f"x{i}"]) for i in range(n)]
        _, c = np.unique(xs, return_counts=True)
        a, b = stats.stdpc(xs), stats.varpc_n(c) ** 0.5
        ok = (a != a and b != b) or a == b or (abs(a) != float('inf') and abs(b) != float('inf') and abs(a - b) <= 1e-12 * max(1.0, abs(b)))
        return ok, f"stdpc({xs})={a!r}, sqrt(varpc_n(counts))={b!r}"
    return replay


def conditions(tier):
    out = []
    Kmax, Nmax, N2max = (3, 6, 3) if tier == "quick" else (5, 10, 5)
    info = {"query_timeout_ms": 120000}
    for K in range(1, Kmax + 1):
        for N in range(2, Nmax + 1):
            if comb(N + K - 1, K - 1) > 1200:
                continue
            for which in ("pc_n", "pc"):
                out.append(Condition(f"C06/E[{which}]/K={K}/N={N}", _body_pc(K, N, which), _replay_identity(K, N, which), budget=600,
                                     engine="SMT", info=info, bounds=f"all real p on {K} categories, {N} draws"))
            if N >= 4:
                out.append(Condition(f"C06/E[varpc_n]/K={K}/N={N}", _body_pc(K, N, "varpc_n"), _replay_identity(K, N, "varpc_n"),
                                     budget=900, engine="SMT", info=info, bounds=f"all real p on {K} categories, {N} draws"))
            if K >= 2:
                out.append(Condition(f"C06/control-biased/K={K}/N={N}", _body_pc(K, N, "pc_n", biased=True), _replay_true(), budget=300,
                                     engine="SMT", info=info, bounds="vacuity control (N^2 denominator must violate the identity)"))
    for K in range(1, min(Kmax, 3) + 1):
        for N1 in range(1, N2max + 1):
            for N2 in range(1, N2max + 1):
                if tier == "quick" and K == 3 and N1 + N2 > 5:
                    continue
                out.append(Condition(f"C06/E[pc2]/K={K}/N1={N1}/N2={N2}", _body_pc2(K, N1, N2), _replay_pc2(K, N1, N2), budget=900,
                                     engine="SMT", info=info, bounds=f"all real p, q on {K} categories, {N1} x {N2} draws"))
    lab_cfgs = [("prefix", 2, 1, 1), ("prefix", 2, 2, 2), ("prefix", 3, 2, 1), ("prefix-rev", 3, 1, 2), ("prefix-rev", 2, 2, 2), ("mixed", 3, 2, 2)]
    if tier != "quick":
        lab_cfgs += [(lab, K, a, b) for lab in ("prefix", "prefix-rev", "mixed") for K in (3, 4) for a in (2, 3) for b in (2, 3)]
    for lab, K, N1, N2 in lab_cfgs:
        out.append(Condition(f"C06/E[pc2]/labels={lab}/K={K}/N1={N1}/N2={N2}", _body_pc2(K, N1, N2, labels=lab), _replay_pc2(K, N1, N2, lab),
                             budget=900, engine="SMT", info=info,
                             bounds=f"all real p, q on {K} categories labelled {LABELS[lab][:K]}, {N1} x {N2} draws"))
    for lab, K, N in [("prefix", 3, 3), ("prefix-rev", 2, 4), ("mixed", 3, 3)] + ([("mixed", 4, 5), ("prefix", 5, 5)] if tier != "quick" else []):
        out.append(Condition(f"C06/E[pc]/labels={lab}/K={K}/N={N}", _body_pc(K, N, "pc", labels=lab), _replay_identity(K, N, "pc", lab),
                             budget=600, engine="SMT", info=info, bounds=f"all real p on {K} categories labelled {LABELS[lab][:K]}, {N} draws"))
    # four categories: the two samples can show the same NUMBER of distinct categories, share the smallest and the largest, and still differ inside
    for K, N1, N2 in [(4, 3, 3), (4, 2, 3)] + ([(4, 3, 4), (5, 3, 3), (4, 4, 4)] if tier != "quick" else []):
        out.append(Condition(f"C06/E[pc2]/K={K}/N1={N1}/N2={N2}", _body_pc2(K, N1, N2), _replay_pc2(K, N1, N2), budget=900,
                             engine="SMT", info=info, bounds=f"all real p, q on {K} categories, {N1} x {N2} draws"))
    out.append(Condition("C06/control-biased-pc2/K=2/N1=2/N2=2", _body_pc2(2, 2, 2, biased=True), _replay_true(), budget=300,
                         engine="SMT", info=info, bounds="vacuity control"))
    for K in range(1, 5):
        out.append(Condition(f"C06/stdpc_n/K={K}", _body_std_n(K), _replay_std_n(K), budget=300, engine="SMT", info=info,
                             bounds=f"{K} symbolic counts, N >= 4"))
    for n in ((4,) if tier == "quick" else (4, 5)):
        out.append(Condition(f"C06/stdpc/n={n}", _body_std(n), _replay_std(n), budget=300 if tier == "quick" else 3600, engine="SMT", info=info,
                             bounds=f"{n} symbolic integer labels"))
    return out
