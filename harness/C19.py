"""C19 - summaries and plots encode the data faithfully (the parts that do not need a rendered figure).

Real code: util.seqs_to_regex / seqs_to_consensus (align=False), plotting.seqlogos (count matrix), plotting.rankfrequency,
plotting.labels_to_colors_hls / labels_to_colors_tableau, plotting.density_scatter(discrete=True), plotting.similarity_clustermap
(returned linkage / clusters and the two matrices handed to the split cluster map)."""
from vlib.rt import Condition
from harness import common as hc

PROPERTY = "C19"
BOUNDS = ("2-3 pre-aligned sequences of length <= 3 over the letters A, C, D and the gap '-' (every column holds a residue); 2-4 symbolic "
          "counts with symbolic missing positions and all flag combinations for rankfrequency; 3-4 symbolic labels and symbolic min_count "
          "for the colour maps (every shuffle outcome); 3 symbolic points for density_scatter; 3-row tables for similarity_clustermap")
OUTSIDE = ["everything that needs a rendered figure: the lower/upper triangle layout and dendrogram order inside ClusterGridSplit.plot_matrix, "
           "colour bar, logomaker glyphs, continuous density_scatter, seqlogos_vj, label_axes", "align_seqs (external mafft)",
           "tableau colours beyond the palette length"]
ASSUMPTIONS = ["logomaker.alignment_to_matrix contract (per-position counts, '-' and '.' ignored, sorted columns)",
               "seaborn.hls_palette(n) returns n pairwise distinct colours", "matplotlib Axes methods are call recorders",
               "numpy.random.shuffle is a nondeterministic permutation", "scipy linkage / fcluster uninterpreted", "CrossHair + plugin + z3"]
M = ("rf", "np", "sp", "sp_terms", "pd", "misc", "plot")
LET = "ACD"


def _realize(x):
    from crosshair.core import deep_realize
    try:
        return repr(deep_realize(x))
    except Exception:  # noqa
        return "<unrealisable>"


def _aligned(sym, n, L, gaps):
    """n sequences of length L over LET (+ '-' if gaps); decided per cell by forking so that the oracle is concrete per path"""
    alpha = (LET if n * L < 6 or not gaps else LET[:2]) + ("-" if gaps else "")
    seqs, cells = [], []
    for i in range(n):
        row = []
        for j in range(L):
            k = sym.sym_int(f"c{i}_{j}", 0, len(alpha) - 1)
            ch = alpha[-1]
            for t in range(len(alpha) - 1):
                if k == t:
                    ch = alpha[t]
                    break
            row.append(ch)
        cells.append(row)
        seqs.append("".join(row))
    return seqs, cells


def _concrete_aligned(inputs, n, L, gaps):
    alpha = (LET if n * L < 6 or not gaps else LET[:2]) + ("-" if gaps else "")
    return ["".join(alpha[int(inputs[f"c{i}_{j}"])] for j in range(L)) for i in range(n)]


def _column_ok(cells, L):
    return all(any(row[j] != "-" for row in cells) for j in range(L))


def _expected_regex(cells, L):
    n, out = len(cells), ""
    for j in range(L):
        res = sorted({row[j] for row in cells if row[j] != "-"})
        out += res[0] if len(res) == 1 else "[" + "".join(res) + "]"
        if any(row[j] == "-" for row in cells):
            out += "?"
    return out


def _body_regex(n, L, gaps):
    def body():
        from pyrepseq import util
        from vlib import sym
        seqs, cells = _aligned(sym, n, L, gaps)
        if not _column_ok(cells, L):
            return True
        got = util.seqs_to_regex(seqs, align=False)
        return got == _expected_regex(cells, L), (lambda: f"seqs_to_regex({seqs}) = {_realize(got)}")
    return body


def _replay_regex(n, L, gaps):
    def replay(inputs):
        import itertools
        import re
        from pyrepseq import util
        seqs = _concrete_aligned(inputs, n, L, gaps)
        cells = [list(s) for s in seqs]
        if not _column_ok(cells, L):
            return True, ""
        got = util.seqs_to_regex(seqs, align=False)
        for s in seqs:
            if not re.fullmatch(got, s.replace("-", "")):
                return False, f"seqs_to_regex({seqs}) = {got!r} does not match input {s!r}"
        # exactness: the accepted language over LET (length <= L) is the product of the observed residue sets
        sets = [sorted({row[j] for row in cells if row[j] != "-"}) for j in range(L)]
        opt = [any(row[j] == "-" for row in cells) for j in range(L)]
        lang = {""}
        for st, o in zip(sets, opt):
            lang = {w + c for w in lang for c in st} | (lang if o else set())
        for k in range(L + 1):
            for w in map("".join, itertools.product(LET, repeat=k)):
                if bool(re.fullmatch(got, w)) != (w in lang):
                    return False, f"seqs_to_regex({seqs}) = {got!r}: string {w!r} " + ("wrongly accepted" if w not in lang else "wrongly rejected")
        return True, ""
    return replay


def _consensus_ok(got, cells, n, L):
    """`got` can be read off the columns from left to right: every column WITHOUT gaps contributes exactly one character, a most frequent residue
    of that column; a column with gaps either contributes a most frequent residue of its non-gap cells or is left out (the statement fixes no
    threshold for gapped columns, so none is demanded)."""
    cols = []
    for j in range(L):
        col = [row[j] for row in cells if row[j] != "-"]
        gapped = len(col) < n
        best = [c for c in set(col) if col.count(c) == max(col.count(x) for x in set(col))] if col else []
        cols.append((gapped, best))
    reach = {0}                                   # positions of `got` that can have been consumed after the columns seen so far
    for gapped, best in cols:
        nxt = set()
        for p in reach:
            if gapped:
                nxt.add(p)
            if p < len(got) and any(got[p] == c for c in best):
                nxt.add(p + 1)
        reach = nxt
    return len(got) in reach


def _body_consensus(n, L, gaps):
    def body():
        from pyrepseq import util
        from vlib import sym
        seqs, cells = _aligned(sym, n, L, gaps)
        if not _column_ok(cells, L):
            return True
        got = util.seqs_to_consensus(seqs, align=False)
        if not _consensus_ok(got, cells, n, L):
            return False, (lambda: f"consensus {_realize(got)} for {seqs}")
        return True
    return body


def _replay_consensus(n, L, gaps):
    def replay(inputs):
        from pyrepseq import util
        seqs = _concrete_aligned(inputs, n, L, gaps)
        cells = [list(s) for s in seqs]
        if not _column_ok(cells, L):
            return True, ""
        got = util.seqs_to_consensus(seqs, align=False)
        return _consensus_ok(got, cells, n, L), f"seqs_to_consensus({seqs}) = {got!r}"
    return replay


def _body_logo(n, L):
    def body():
        from pyrepseq import plotting
        from models.plot_model import Recorder
        from vlib import sym
        seqs, cells = _aligned(sym, n, L, False)
        ax, mat = plotting.seqlogos(seqs, ax=Recorder("ax"))
        for j in range(L):
            for ch in LET:
                want = sum(1 for row in cells if row[j] == ch)
                have = mat._cols[ch][j] if ch in mat._cols else 0
                if have != want:
                    return False, (lambda: f"count matrix {_realize(mat.to_numpy().tolist())} for {seqs}")
        return set(mat._names) <= set(LET) and len(mat) == L, "count matrix shape"
    return body


def _replay_logo(n, L):
    def replay(inputs):
        import matplotlib
        matplotlib.use("Agg")
        import matplotlib.pyplot as plt
        from pyrepseq import plotting
        seqs = _concrete_aligned(inputs, n, L, False)
        fig, ax = plt.subplots()
        _, mat = plotting.seqlogos(seqs, ax=ax)
        plt.close(fig)
        ok = all(int(mat[ch][j]) == sum(1 for s in seqs if s[j] == ch) for ch in mat.columns for j in range(L)) and \
            all(any(s[j] == ch for s in seqs for j in range(L)) for ch in mat.columns)
        return ok, f"seqlogos({seqs}) count matrix {mat.to_dict()}"
    return replay


# ---------------------------------------------------------------- rankfrequency
def _body_rank(n, nx, ny, sx, sy, dtype=None):
    def body():
        import math
        from pyrepseq import plotting
        from models import plot_model
        from models.plot_model import Recorder
        from vlib import sym, symops as so
        vals, data = [], []
        for i in range(n):
            v = sym.sym_int(f"v{i}", 0 if dtype else 1, 4)
            missing = bool(sym.sym_bool(f"m{i}")) if not dtype else False
            data.append(float("nan") if missing else v)
            if not missing:
                vals.append(v)
        if not vals:
            return True
        if dtype:       # counts held in a typed integer array (zeros allowed): the order drawn must not depend on the dtype
            if nx:
                sym.assume(so.gt(so.total(vals), 0))        # frequencies need a positive total
            import numpy as _rnp
            from models import np_model
            data = np_model.array(list(vals), dtype=_rnp.dtype(dtype))
        plot_model.reset()
        scalex, scaley = (2.0 if sx else 1.0), (3.0 if sy else 1.0)
        plotting.rankfrequency(data, ax=Recorder("ax"), normalize_x=nx, normalize_y=ny, scalex=scalex, scaley=scaley, log_x=False, log_y=True)
        steps = [c for c in plot_model.CALLS if c[0] == "ax.step"]
        if len(steps) != 1:
            return False, f"{len(steps)} step() calls"
        xs, ys = list(steps[0][1][0]), list(steps[0][1][1])
        k = len(vals)
        if len(xs) != k or len(ys) != k:
            return False, f"{len(xs)} points drawn for {k} non-missing values"
        tot = so.total(vals)
        conds = []
        for r in range(k):
            # x[r] is the (r+1)-th largest value: at least r+1 values are >= it and at most r values are > it
            xr = xs[r]
            raw = so.mul(xr, 1.0 / scalex)
            val = so.mul(raw, tot) if nx else raw           # undo the normalisation
            ge = so.count_true([so.ge(so.add(v, 1e-9), val) for v in vals])
            gt = so.count_true([so.gt(v, so.add(val, 1e-9)) for v in vals])
            conds.append(so.b_and(so.ge(ge, r + 1), so.le(gt, r)))
            conds.append(so.b_or(*[so.close(val, v, 1e-9) for v in vals]))
            conds.append(so.close(ys[r], scaley * r / (k if ny else 1), 1e-9))
        names = [c[0] for c in plot_model.CALLS]
        if "ax.set_yscale" not in names or "ax.set_xscale" in names:
            return False, f"scale calls {names}"
        labels = [c[1][0] for c in plot_model.CALLS if c[0] == "ax.set_xlabel"]
        if labels != ["Clone frequency" if nx else "Clone size"]:
            return False, f"x label {labels}"
        return so.b_and(*conds), (lambda: f"step({_realize(xs)}, {_realize(ys)})")
    return body


def _replay_rank(n, nx, ny, sx, sy, dtype=None):
    def replay(inputs):
        import matplotlib
        matplotlib.use("Agg")
        import matplotlib.pyplot as plt
        import numpy as np
        from pyrepseq import plotting
        data = [float("nan") if inputs.get(f"m{i}") else float(inputs[f"v{i}"]) for i in range(n)]
        vals = sorted([v for v in data if v == v], reverse=True)
        if not vals:
            return True, ""
        if dtype:
            if nx and sum(vals) == 0:
                return True, "all counts zero: frequencies undefined"
            data = np.array([int(v) for v in data], dtype=dtype)
        fig, ax = plt.subplots()
        scalex, scaley = (2.0 if sx else 1.0), (3.0 if sy else 1.0)
        lines = plotting.rankfrequency(data, ax=ax, normalize_x=nx, normalize_y=ny, scalex=scalex, scaley=scaley, log_x=False, log_y=True)
        x, y = lines[0].get_xdata(), lines[0].get_ydata()
        plt.close(fig)
        wx = [v / (sum(vals) if nx else 1) * scalex for v in vals]
        wy = [scaley * r / (len(vals) if ny else 1) for r in range(len(vals))]
        return bool(np.allclose(x, wx) and np.allclose(y, wy)), f"rankfrequency({data}, normalize_x={nx}, normalize_y={ny}): x={list(x)} y={list(y)}; expected x={wx} y={wy}"
    return replay


# ---------------------------------------------------------------- label colours
def _body_colors(fn, n):
    def body():
        from pyrepseq import plotting
        from vlib import sym, symops as so
        labels = [sym.sym_int(f"l{i}", 0, 2) for i in range(n)]
        mc = sym.sym_int("min_count", 1, 3)
        got = getattr(plotting, fn)(list(labels), min_count=mc)
        if len(got) != n:
            return False, "one colour per label expected"
        black = [0, 0, 0]
        conds = []
        for i in range(n):
            cnt = so.count_true([so.eq(labels[i], labels[j]) for j in range(n)])
            is_black = got[i] == black if isinstance(got[i], list) else False
            conds.append(so.b_iff(is_black, so.lt(cnt, mc)))
            for j in range(i):
                same_col = (got[i] == got[j]) if not (isinstance(got[i], list) or isinstance(got[j], list)) else (got[i] == got[j])
                same_lab = so.eq(labels[i], labels[j])
                conds.append(so.b_implies(same_lab, bool(same_col)))
                if fn == "labels_to_colors_hls":
                    both_kept = so.b_and(so.ge(cnt, mc), so.ge(so.count_true([so.eq(labels[j], labels[t]) for t in range(n)]), mc))
                    conds.append(so.b_implies(so.b_and(both_kept, so.b_not(same_lab)), not bool(same_col)))
        return so.b_and(*conds), (lambda: f"{fn}({_realize(labels)}, min_count={_realize(mc)}) = {_realize(got)}")
    return body


def _replay_colors(fn, n):
    def replay(inputs):
        import numpy as np
        from pyrepseq import plotting
        labels = [int(inputs[f"l{i}"]) for i in range(n)]
        mc = int(inputs["min_count"])
        for seed in range(4):
            np.random.seed(seed)
            got = [tuple(c) for c in getattr(plotting, fn)(list(labels), min_count=mc)]
            for i in range(n):
                if (got[i] == (0, 0, 0)) != (labels.count(labels[i]) < mc):
                    return False, f"{fn}({labels}, min_count={mc}) = {got}: label {labels[i]} (count {labels.count(labels[i])})"
                for j in range(i):
                    if labels[i] == labels[j] and got[i] != got[j]:
                        return False, f"{fn}({labels}): equal labels, different colours"
                    if fn == "labels_to_colors_hls" and labels[i] != labels[j] and got[i] == got[j] and got[i] != (0, 0, 0):
                        return False, f"{fn}({labels}): distinct labels share a colour"
        return True, ""
    return replay


# ---------------------------------------------------------------- density_scatter(discrete)
def _body_scatter(n, lo=0, hi=1, half=False, arrays=False):
    def body():
        from pyrepseq import plotting
        from models import plot_model
        from models.plot_model import Recorder
        from vlib import sym, symops as so
        xs = [sym.sym_int(f"x{i}", lo, hi) for i in range(n)]
        ys = [sym.sym_int(f"y{i}", lo, hi) for i in range(n)]
        if half:      # a half-integer grid is discrete data too
            xs, ys = [so.mul(x, 0.5) for x in xs], [so.mul(y, 0.5) for y in ys]
        plot_model.reset()
        if arrays:
            from models import np_model
            plotting.density_scatter(np_model.array(list(xs)), np_model.array(list(ys)), ax=Recorder("ax"), discrete=True)
        else:
            plotting.density_scatter(list(xs), list(ys), ax=Recorder("ax"), discrete=True)
        sc = [c for c in plot_model.CALLS if c[0] == "ax.scatter"]
        if len(sc) != 1:
            return False, "one scatter call expected"
        px, py, pz = list(sc[0][1][0]), list(sc[0][1][1]), list(sc[0][2]["c"])
        conds = []
        for k in range(len(px)):
            mult = so.count_true([so.b_and(so.eq(xs[i], px[k]), so.eq(ys[i], py[k])) for i in range(n)])
            conds.append(so.b_and(so.ge(mult, 1), so.eq(pz[k], mult)))
            for k2 in range(k):
                conds.append(so.b_not(so.b_and(so.eq(px[k], px[k2]), so.eq(py[k], py[k2]))))
                conds.append(so.le(pz[k2], pz[k]))                 # densest points last
        for i in range(n):
            conds.append(so.b_or(*[so.b_and(so.eq(xs[i], px[k]), so.eq(ys[i], py[k])) for k in range(len(px))]))
        return so.b_and(*conds), (lambda: f"scatter({_realize(px)}, {_realize(py)}, c={_realize(pz)})")
    return body


def _replay_scatter(n, half=False, arrays=False):
    def replay(inputs):
        import collections
        import matplotlib
        matplotlib.use("Agg")
        import matplotlib.pyplot as plt
        import numpy as np
        from pyrepseq import plotting
        f = 0.5 if half else 1
        xs, ys = [int(inputs[f"x{i}"]) * f for i in range(n)], [int(inputs[f"y{i}"]) * f for i in range(n)]
        fig, ax = plt.subplots()
        if arrays:
            plotting.density_scatter(np.array(xs), np.array(ys), ax=ax, discrete=True)
        else:
            plotting.density_scatter(list(xs), list(ys), ax=ax, discrete=True)
        coll = ax.collections[0]
        pts = [tuple(float(v) for v in p) for p in coll.get_offsets()]
        xs, ys = [float(v) for v in xs], [float(v) for v in ys]
        z = [int(v) for v in coll.get_array()]
        plt.close(fig)
        want = collections.Counter(zip(xs, ys))
        ok = len(pts) == len(set(pts)) and dict(zip(pts, z)) == dict(want) and z == sorted(z)
        return ok, f"density_scatter({xs}, {ys}) drew {pts} with multiplicities {z}, expected {dict(want)}"
    return replay


# ---------------------------------------------------------------- similarity_clustermap
def _body_scm(single, alens=(1, 1, 1), blens=(1, 1, 1)):
    def body():
        from pyrepseq import plotting
        from models import pd_model, plot_model, sp_model
        from models.np_model import NDArray
        from vlib import sym, symops as so
        a = [sym.sym_str(f"a{i}", alens[i], lo=1) for i in range(3)]
        b = [sym.sym_str(f"b{i}", blens[i], lo=1) for i in range(3)]
        df = pd_model.DataFrame({"cdr3a": list(a), "cdr3b": list(b), "meta": ["x", "y", "x"]}, index=[7, 8, 9])
        plot_model.reset()
        kw = dict(beta_column=None) if single else {}
        cg, linkage, cluster = plotting.similarity_clustermap(df, meta_to_colors=[lambda labels, **k: [0, 0, 0]], **kw)
        da = [hc.lev_term(a[i], a[j]) for i in range(3) for j in range(i + 1, 3)]
        db = [hc.lev_term(b[i], b[j]) for i in range(3) for j in range(i + 1, 3)]
        want = da if single else [so.add(x, y) for x, y in zip(da, db)]
        if not (isinstance(linkage, sp_model.Term) and linkage.name == "linkage" and isinstance(linkage.args[0], NDArray)
                and linkage.kwargs == dict(method="average", optimal_ordering=True)):
            return False, f"linkage {linkage!r}"
        if not (isinstance(cluster, sp_model.Term) and cluster.name == "fcluster" and cluster.args[0] is linkage
                and cluster.kwargs == dict(t=6, criterion="distance")):
            return False, f"cluster {cluster!r}"
        dist = list(linkage.args[0]._d)
        conds = [so.eq(g, w) for g, w in zip(dist, want)] + [len(dist) == 3]
        calls = [c for c in plot_model.CALLS if c[0] == "clustermap_split"]
        if len(calls) != 1 or calls[0][2].get("row_linkage") is not linkage or calls[0][2].get("col_linkage") is not linkage:
            return False, "clustermap_split not called once with the shared linkage"
        lower, upper = calls[0][1][0], calls[0][1][1]
        for frame, d in ((lower, da), (upper, da if single else db)):       # alpha below, beta above the diagonal
            sq = frame.to_numpy()
            p = 0
            for i in range(3):
                conds.append(so.eq(sq[i, i], 0))
                for j in range(i + 1, 3):
                    conds.append(so.b_and(so.eq(sq[i, j], d[p]), so.eq(sq[j, i], d[p])))
                    p += 1
        return so.b_and(*conds), (lambda: f"distances {_realize(dist)}")
    return body


def _replay_scm(single):
    def replay(inputs):
        import matplotlib
        matplotlib.use("Agg")
        import matplotlib.pyplot as plt
        import numpy as np
        import pandas as pd
        from pyrepseq import plotting, distance
        from pyrepseq.metric import Levenshtein
        a, b = [inputs[f"a{i}"] for i in range(3)], [inputs[f"b{i}"] for i in range(3)]
        df = pd.DataFrame({"cdr3a": a, "cdr3b": b}, index=[7, 8, 9])
        cg, linkage, cluster = plotting.similarity_clustermap(df, **(dict(beta_column=None) if single else {}))
        plt.close("all")
        d = Levenshtein().calc_pdist_vector(a) + (0 if single else Levenshtein().calc_pdist_vector(b))
        import scipy.cluster.hierarchy as hcl
        wl = hcl.linkage(d, method="average", optimal_ordering=True)
        wc = hcl.fcluster(wl, t=6, criterion="distance")
        return bool(np.allclose(linkage, wl) and list(cluster) == list(wc)), f"similarity_clustermap({a}, {b}) clusters {list(cluster)} expected {list(wc)}"
    return replay


def _setup():
    import pyrepseq  # noqa
    from pyrepseq import plotting
    from models.plot_model import Recorder
    plotting.clustermap_split = Recorder("clustermap_split")


def conditions(tier):
    out = []
    T = tier == "thorough"
    for n, L, gaps in [(2, 2, False), (2, 2, True), (3, 2, True), (2, 3, False)] + ([(3, 3, True), (3, 3, False)] if T else []):
        tag = f"n={n}/L={L}/" + ("gaps" if gaps else "nogaps")
        out.append(Condition(f"C19/seqs_to_regex/{tag}", _body_regex(n, L, gaps), _replay_regex(n, L, gaps), budget=600 if not T else 3000,
                             models=M, bounds=f"{n} aligned sequences of length {L}"))
        out.append(Condition(f"C19/seqs_to_consensus/{tag}", _body_consensus(n, L, gaps), _replay_consensus(n, L, gaps),
                             budget=600 if not T else 3000, models=M, bounds=f"{n} aligned sequences of length {L}"))
    for n, L in [(1, 1), (1, 2), (1, 3)]:        # a single sequence is its own consensus
        out.append(Condition(f"C19/seqs_to_consensus/n={n}/L={L}/nogaps", _body_consensus(n, L, False), _replay_consensus(n, L, False),
                             budget=600, models=M, bounds=f"{n} sequence of length {L}"))
    for n, L in [(2, 2), (3, 2)]:
        out.append(Condition(f"C19/seqlogos/n={n}/L={L}", _body_logo(n, L), _replay_logo(n, L), budget=600, models=M,
                             bounds=f"count matrix for {n} sequences of length {L}"))
    for n in (2, 3):
        for nx, ny, sx, sy in [(True, False, False, False), (False, True, True, True), (False, False, False, True), (True, True, True, False)]:
            if n == 3 and not T and (nx, ny) in ((False, False), (True, True)):
                continue
            out.append(Condition(f"C19/rankfrequency/n={n}/nx={int(nx)}ny={int(ny)}sx={int(sx)}sy={int(sy)}", _body_rank(n, nx, ny, sx, sy),
                                 _replay_rank(n, nx, ny, sx, sy), budget=600 if not T else 3000, models=M,
                                 bounds=f"{n} symbolic counts with symbolic missing positions"))
    for dt, nx in [("uint8", False), ("uint16", True), ("int64", False)]:
        out.append(Condition(f"C19/rankfrequency/n=3/{dt}-array/nx={int(nx)}", _body_rank(3, nx, False, False, False, dt), _replay_rank(3, nx, False, False, False, dt),
                             budget=600, models=M, bounds=f"3 symbolic counts 0..4 (zeros allowed) in a {dt} array, normalize_x={nx}"))
    for fn in ("labels_to_colors_hls", "labels_to_colors_tableau"):
        for n in (3,) + ((4,) if T else ()):
            out.append(Condition(f"C19/{fn}/n={n}", _body_colors(fn, n), _replay_colors(fn, n), budget=900 if not T else 3000, models=M,
                                 bounds=f"{n} symbolic labels, symbolic min_count, every shuffle outcome"))
    out.append(Condition("C19/density_scatter/n=3", _body_scatter(3), _replay_scatter(3), budget=600, models=M, bounds="3 symbolic points"))
    out.append(Condition("C19/density_scatter/n=3/signed-arrays", _body_scatter(3, -2, 2, arrays=True), _replay_scatter(3, arrays=True), budget=600, models=M,
                         bounds="3 symbolic points with integer coordinates -2..2, given as arrays"))
    out.append(Condition("C19/density_scatter/n=2/half-integer-arrays", _body_scatter(2, -1, 3, half=True, arrays=True), _replay_scatter(2, half=True, arrays=True),
                         budget=600, models=M, bounds="2 symbolic points on a half-integer grid (-0.5 .. 1.5), given as arrays"))
    for single in (False, True):
        if not single:      # chains of different lengths: a tail of one alpha chain may equal the head of another row's beta chain
            out.append(Condition("C19/similarity_clustermap/paired/alpha=3,1,1/beta=1,3,1", _body_scm(False, (3, 1, 1), (1, 3, 1)), _replay_scm(False),
                                 budget=900, models=M, setup=_setup, bounds="3-row paired table, alpha chains of lengths 3,1,1 and beta chains of lengths 1,3,1"))
        out.append(Condition("C19/similarity_clustermap/" + ("single" if single else "paired"), _body_scm(single), _replay_scm(single),
                             budget=600, models=M, setup=_setup, bounds="3-row table, free one-letter CDR3s"))
    return out
