"""C04 - hash_based and kdtree return the same exact neighbour set as the default search.

Real code: hash_based -> _check_common_input, ensure_numpy, LookupDB.__init__/lookup, _generate_neighbors,
levenshtein_neighbors, _make_output;  kdtree -> _kdtree_leven, _histogram_encode, _to_triplets, _cal_levenshtein,
_flatten_array, _make_output.  Models: rapidfuzz distance/extract, NumPy subset, SciPy KDTree."""
from vlib.rt import Condition
from harness import common as hc

PROPERTY = "C04"
BOUNDS = ("lists of 2-3 amino-acid strings, concrete lengths <= 3, contents free within a 2-3 letter sub-alphabet "
          "(hash_based: pyrepseq's alphabet constant rebound to that sub-alphabet, and the full 20 letters at lengths <= 1; "
          "kdtree: letter triples chosen to share / straddle composition bins, full 20-letter constant); max_edits 1..3")
OUTSIDE = ["lengths > 3, lists > 3", "max_edits > 3", "KD-tree pruning internals (contract: documented ball query)",
           "rapidfuzz internals (contract model)", "letters outside the amino-acid alphabet (outside the engines' domain)"]
ASSUMPTIONS = ["rapidfuzz Levenshtein.distance / process.extract contracts (models/rf_model.py)",
               "scipy.spatial.KDTree.query_ball_point contract (models/sp_model.py)",
               "NumPy subset model (models/np_model.py)", "reals stand in for floats where pyrepseq compares with inf",
               "CrossHair symbolic semantics + display plugin + z3"]


def _fmt(got):
    from crosshair.core import deep_realize
    try:
        return repr(sorted(deep_realize(list(got))))
    except Exception:  # noqa
        return "<unrealisable>"


def _body(engine, shape, k, letters, kw):
    def body():
        import pyrepseq
        from vlib import sym
        seqs = [sym.sym_str(f"s{i}", n, among=letters) for i, n in enumerate(shape)]
        got = getattr(pyrepseq, engine)(seqs, max_edits=k, **kw)
        if not isinstance(got, list):
            return False, "not a list"
        cache = {}

        def dist(q, r):
            key = (min(q, r), max(q, r))
            if key not in cache:
                cache[key] = hc.lev_term(seqs[key[0]], seqs[key[1]])
            return cache[key]

        if engine == "kdtree":
            # rapidfuzz.process.extract keeps only `limit` matches and its DEFAULT is 5: without max_returns the limit handed
            # over must be None, otherwise sequences with more than five neighbours silently lose some (argument record)
            from models import rf_model
            lims = [kw_["limit"] for name, kw_ in rf_model.CALLS if name == "extract"]
            if any(l is not None for l in lims):
                return False, f"process.extract called with limit={lims} although max_returns is None"
        ok = hc.exact_triplets(got, len(seqs), len(seqs), dist, k, self_mode=True)
        return ok, (lambda: f"{engine}(max_edits={k}) returned {_fmt(got)}")
    return body


def _replay(engine, shape, k, kw):
    def replay(inputs):
        import pyrepseq
        seqs = [inputs[f"s{i}"] for i in range(len(shape))]
        got = getattr(pyrepseq, engine)(list(seqs), max_edits=k, **kw)
        want = hc.want_triplets(seqs, seqs, hc.lev, k, True)
        ok, detail = hc.compare_triplets(got, want)
        if ok and engine == "kdtree":
            # real-library probe for the argument-record part: a sequence with MORE than five neighbours keeps them all
            hub = ["CASSLGQYF"] + ["CASSLGQY" + c for c in "ACDEGHI"]
            pg = getattr(pyrepseq, engine)(list(hub), max_edits=k, **kw)
            pw = hc.want_triplets(hub, hub, hc.lev, k, True)
            ok, detail = hc.compare_triplets(pg, pw)
            detail = f"[probe: 8 mutually neighbouring sequences {hub}] " + detail
        if ok:
            ref = pyrepseq.nearest_neighbor(list(seqs), max_edits=k)
            ok, detail = hc.compare_triplets(got, set(hc.canon(ref)))
            detail = "differs from nearest_neighbor: " + detail
        return ok, f"{engine}({seqs!r}, max_edits={k}): {detail}"
    return replay


def _setup(letters_const):
    def setup():
        import pyrepseq  # noqa
        if letters_const:
            hc.set_alphabet(letters_const)
    return setup


def _mk(engine, shape, k, letters, rebind_alpha=False, budget=200, **kw):
    cid = f"C04/{engine}/len={','.join(map(str, shape))}/k={k}/{letters}" + ("".join(f"/{a}={b}" for a, b in kw.items()))
    return Condition(cid, _body(engine, shape, k, letters, kw), _replay(engine, shape, k, kw), budget=budget,
                     bounds=f"{engine}: {len(shape)} strings of lengths {shape} over letters {letters}, max_edits={k}"
                            + (" (alphabet constant rebound)" if rebind_alpha else ""),
                     models=("rf", "np", "sp", "mp") + (("misc",) if kw.get("progress") else ()), setup=_setup(letters if rebind_alpha else None))


def _probe_long(engine, k):
    def run():
        import pyrepseq
        seqs = ["A" * 127, "A" * 128, "A" * 129, "AC" * 128, "AC" * 127 + "C", "A" * 128 + "C", "CASSLGQYF", "W" * 260, "W" * 259 + "Y"]
        got = getattr(pyrepseq, engine)(list(seqs), max_edits=k)
        want = hc.want_triplets(seqs, seqs, hc.lev, k, True)
        ok, detail = hc.compare_triplets(got, want)
        return ok, f"[long-sequence probe] {engine}(max_edits={k}) on sequences with 127-260 copies of one residue (lengths {[len(x) for x in seqs]}): {detail}"
    return run


def _probe_scale(engine, **kw):
    def run():
        import pyrepseq
        seqs, planted = hc.scale_case()
        got = getattr(pyrepseq, engine)(list(seqs), max_edits=1, **kw)
        ok, detail = hc.compare_triplets(got, hc.scale_self_expected(planted))
        return ok, f"[scale probe] {engine}({kw}) on {len(seqs)} sequences (neighbours planted at positions {sorted(planted.values())}): {detail}"
    return run


def conditions(tier):
    out = []
    # hash_based: alphabet constant rebound to the sub-alphabet
    for shape in [(1, 1), (1, 0), (2, 1), (2, 2), (2, 0), (1, 1, 1)]:
        out.append(_mk("hash_based", shape, 1, "AC", True))
    for shape in [(1, 1), (2, 1), (1, 0), (2, 0)]:
        out.append(_mk("hash_based", shape, 2, "AC", True))
    for shape in [(1, 1), (2, 1), (1, 0)]:
        out.append(_mk("hash_based", shape, 1, "ACD", True))
    out.append(_mk("hash_based", (1, 0), 3, "AC", True))
    out.append(_mk("hash_based", (2, 1), 1, "AC", True, progress=True))       # a progress bar changes nothing
    out.append(_mk("hash_based", (1, 1, 1), 1, "AC", True, progress=True))
    # equal-length collections whose closest pairs need an insertion AND a deletion ('ACA' / 'CAC': lev 2, hamming 3):
    # every shortest path runs through strings shorter / longer than anything stored
    out.append(_mk("hash_based", (2, 2), 2, "AC", True))
    out.append(_mk("hash_based", (3, 3), 2, "AC", True, budget=900))
    out.append(_mk("hash_based", (1, 0), 1, hc.AMINO, True, budget=300))
    # kdtree: letters straddling / sharing composition bins
    for letters in ("ACY", "LMN"):
        for shape in [(1, 1), (2, 1), (2, 2), (1, 0), (2, 0), (1, 1, 1)]:
            out.append(_mk("kdtree", shape, 1, letters))
        for shape in [(2, 1), (2, 2), (2, 0)]:
            out.append(_mk("kdtree", shape, 2, letters))
    out.append(_mk("kdtree", (3, 2), 1, "ACY"))
    out.append(_mk("kdtree", (3, 2), 2, "AY"))
    out.append(_mk("kdtree", (2, 1), 3, "AY"))
    out.append(_mk("kdtree", (3, 3), 3, "AY"))      # composition vectors exactly on the ball boundary: delta = (+3, -3)
    out.append(_mk("kdtree", (2, 2), 1, "AC", compression=2))
    out.append(_mk("kdtree", (2, 2), 2, "ACD", compression=3))
    if tier == "thorough":
        out.append(_mk("hash_based", (2, 2), 1, "ACD", True, budget=2400))
        out.append(_mk("hash_based", (3, 2), 1, "AC", True, budget=2400))
        out.append(_mk("hash_based", (3, 3), 3, "AC", True, budget=2400))
        out.append(_mk("hash_based", (3, 3, 3), 2, "AC", True, budget=2400))
        out.append(_mk("hash_based", (2, 1), 3, "AC", True, budget=2400))
        out.append(_mk("hash_based", (2, 2, 1), 1, "AC", True, budget=2400))
        out.append(_mk("hash_based", (1, 1), 1, hc.AMINO, True, budget=2400))
        for letters in ("ACY", "LMN", "ACD"):
            out.append(_mk("kdtree", (3, 3), 2, letters, budget=2400))
            out.append(_mk("kdtree", (3, 2), 3, letters, budget=2400))
            out.append(_mk("kdtree", (3, 3), 3, letters, budget=2400))
            out.append(_mk("kdtree", (2, 2, 2), 2, letters, budget=2400))
        out.append(_mk("kdtree", (4, 3), 2, "AY", budget=2400))
    for engine, k in [("kdtree", 1), ("kdtree", 2), ("hash_based", 1), ("nearest_neighbor", 2)]:
        out.append(hc.probe_condition(f"C04/probe/{engine}/long-sequences/k={k}", f"{engine}, max_edits={k}, nine sequences of length 9-260 with 127-260 copies of one residue "
                                      "(composition counts beyond one signed byte): exact triplet set against a brute-force Levenshtein", _probe_long(engine, k)))
    out.append(hc.probe_condition("C04/probe/hash_based/70000-sequences", "hash_based, max_edits=1, 70 006 sequences with six planted neighbour pairs: exact triplet set",
                                  _probe_scale("hash_based")))
    out.append(hc.probe_condition("C04/probe/kdtree/70000-sequences", "kdtree, max_edits=1, 70 006 sequences with six planted neighbour pairs: exact triplet set",
                                  _probe_scale("kdtree")))
    return out
