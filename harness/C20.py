"""C20 - calls are pure: arguments stay untouched and results ignore call history.

One inductive step per public function from an ARBITRARY state: (i) module-level state (nn._cal_params) is havocked and other pyrepseq
calls - including one that raises - are interposed; (ii) every mutable default argument of every pyrepseq function is compared with its
import-time value; (iii) the caller's containers must keep exactly the same leaves (identity).  The result before and after must be
structurally equal.  Randomised functions are re-run with the recorded generator outcomes ("same seed")."""
from vlib.rt import Condition
from harness import common as hc

PROPERTY = "C20"
BOUNDS = ("per public function one call with small symbolic arguments (2-3 strings of length <= 2, tables of 2-3 rows, 2-4 labels), "
          "repeated after havocking the module-level parameter block and after interposed calls (a kdtree call with other parameters and a "
          "call that raises); all pyrepseq functions' mutable defaults are audited after every call")
OUTSIDE = ["state inside third-party libraries (matplotlib's figure stack, pandas options, NumPy's global generator is a model)",
           "functions that need a rendered figure beyond the recorder (ClusterGridSplit.plot_matrix, seqlogos_vj, label_axes)",
           "align_seqs (external mafft)", "histories longer than the inductive step composes"]
ASSUMPTIONS = ["if every call preserves its arguments and all mutable defaults, and its result does not depend on the havocked globals, every "
               "history leaves the observable state equal to the initial one (induction over the history length)",
               "library contract models as in the functions' own properties", "CrossHair + plugin + z3"]
M = ("rf", "np", "sp", "sp_terms", "mp", "pd", "misc", "plot")
STATE = {}


def _setup():
    import pyrepseq  # noqa
    from pyrepseq import plotting
    from models.plot_model import Recorder
    hc.set_alphabet("AC")
    plotting.clustermap_split = Recorder("clustermap_split")
    STATE["defaults"] = hc.mutable_defaults()
    STATE["globals0"] = _snapshot_globals()


def _pyrepseq_modules():
    import sys
    return [m for n, m in list(sys.modules.items()) if m is not None and (n == "pyrepseq" or n.startswith("pyrepseq."))]


def _snapshot_globals():
    """import-time value of every module-level plain container of pyrepseq (dict / list / set): the places where a cache or
    parameter block can live.  Restoring them gives the 'fresh interpreter' state without starting one."""
    import copy
    snap = {}
    for mod in _pyrepseq_modules():
        names = set(vars(mod))
        for k, v in list(vars(mod).items()):
            if k.startswith("__"):
                continue
            if type(v) in (dict, list, set):
                try:
                    snap[(mod.__name__, k)] = copy.deepcopy(v)
                except Exception:  # noqa
                    pass
        snap[(mod.__name__, "__names__")] = names
    # class-level containers (a memo shared by all instances lives there) and the attribute names each class has at import time
    csnap = {}
    for cls in _pyrepseq_classes():
        csnap[cls] = (set(vars(cls)), {k: copy.deepcopy(v) for k, v in vars(cls).items() if type(v) in (dict, list, set)})
    snap[("__classes__", "")] = csnap
    return snap


def _pyrepseq_classes():
    seen = []
    for mod in _pyrepseq_modules():
        for v in list(vars(mod).values()):
            if isinstance(v, type) and str(getattr(v, "__module__", "")).startswith("pyrepseq") and v not in seen:
                seen.append(v)
    return seen


def _clear_function_caches():
    """functools caches (lru_cache / cache) on module-level functions and on methods: empty in a fresh interpreter"""
    for holder in _pyrepseq_modules() + _pyrepseq_classes():
        for v in list(vars(holder).values()):
            f = getattr(v, "__func__", v)
            clear = getattr(f, "cache_clear", None)
            if callable(clear):
                try:
                    clear()
                except Exception:  # noqa
                    pass


def _restore_globals():
    from crosshair.tracers import NoTracing
    with NoTracing():
        _restore_globals_plain()


def _restore_globals_plain():
    import copy
    import sys
    import types
    snap = STATE["globals0"]
    for mod in _pyrepseq_modules():
        names0 = snap.get((mod.__name__, "__names__"))
        if names0 is None:
            continue
        for k in list(vars(mod)):
            v = vars(mod)[k]
            if k not in names0 and not isinstance(v, (types.ModuleType, types.FunctionType, type)):
                delattr(mod, k)                       # state created at run time (e.g. nn._cal_params)
        for (mname, k), v in snap.items():
            if mname == mod.__name__ and k != "__names__":
                setattr(mod, k, copy.deepcopy(v))
    for cls, (names0, vals) in snap.get(("__classes__", ""), {}).items():
        for k in list(vars(cls)):
            if k not in names0:
                try:
                    delattr(cls, k)                   # class attribute created at run time
                except Exception:  # noqa
                    pass
        for k, v in vals.items():
            setattr(cls, k, copy.deepcopy(v))
    _clear_function_caches()


def _havoc(sym):
    """arbitrary module-level state + interposed history"""
    import pyrepseq
    from pyrepseq import nn
    nn._cal_params = ("junk", sym.sym_int("junk", -5, 5, register=False), None, "hamming", 0.0)
    from crosshair.tracers import NoTracing
    with NoTracing():            # concrete history calls: plain execution is enough (and much faster)
        _history(pyrepseq, nn)


def _history(pyrepseq, nn):
    try:
        pyrepseq.symdel([], max_edits=1)                # a call that raises
    except Exception:
        pass
    pyrepseq.kdtree(["AA", "AC", "A"], max_edits=2, max_returns=1, custom_distance="hamming")      # leaves its own parameter block behind
    # the same entry points with OTHER parameter values / inputs of the same sizes: anything memoised too coarsely goes stale
    pyrepseq.symdel(["AA", "C", "AC"], max_edits=1)
    pyrepseq.symdel(["AC", "A", "CC"], max_edits=3, custom_distance="hamming")
    pyrepseq.hash_based(["AA", "C"], max_edits=1)
    db = nn.LookupDB(["AA", "C"])
    db.lookup(["AC"], max_edits=2)
    nn.SymdelDB(["AA", "C"], 1).lookup(["CA"])
    # every string the scenarios can build over their two letters, searched with a LARGER radius than any scenario uses: a memo that is
    # extended in place, or keyed without the radius, now holds entries that are wrong for the scenario's own call
    every = ["A", "C", "AA", "AC", "CA", "CC"]
    pyrepseq.hash_based(list(every), max_edits=3)
    pyrepseq.hash_based(list(every), max_edits=3, custom_distance="hamming")
    pyrepseq.symdel(list(every), max_edits=3)
    pyrepseq.kdtree(list(every), max_edits=3)
    # other metric OBJECTS with other weights, constructed and used: weights kept anywhere but on the instance would leak into the scenario's metric
    try:
        from pyrepseq.metric import tcr_metric, Levenshtein, WeightedLevenshtein
        from models import pd_model as _pdm
        tab = _pdm.DataFrame({"TRAV": ["TRAV1*01", "TRAV2*01"], "CDR3A": ["CA", "CF"], "TRBV": ["TRBV1*01", "TRBV2*01"], "CDR3B": ["CAS", "CS"]}, index=[5, 6])
        from models import misc_model as _mm
        had = _mm.TR_SEQ.get("table")
        if had is None:
            _mm.TR_SEQ["table"] = lambda gene: {"CDR1-IMGT": "AA", "CDR2-IMGT": "C"}
        for mt in (tcr_metric.AlphaCdr3Levenshtein(insertion_weight=2), tcr_metric.Cdr3Levenshtein(alpha_weight=4, beta_weight=6),
                   tcr_metric.BetaCdrLevenshtein(cdr3_weight=9),
                   tcr_metric.CdrLevenshtein(3, 2, 5, alpha_weight=7, beta_weight=11, cdr1_weight=13, cdr2_weight=17, cdr3_weight=19)):   # non-default weights LAST
            mt.calc_cdist_matrix(tab, tab)
        if had is None:
            _mm.TR_SEQ["table"] = None
        WeightedLevenshtein(3, 2, 4).calc_cdist_matrix(["AC", "C"], ["A"])
        Levenshtein().calc_pdist_vector(["AC", "C", "A"])
    except ImportError:
        pass
    try:
        pyrepseq.kdtree(["AA"], max_edits=0)
    except Exception:
        pass


def _scenarios():
    """name -> (make(sym) -> (thunk, watched containers), randomised?)"""
    S = {}

    def strs(sym, shape, among=None, lo=0):
        return [sym.sym_str(f"s{i}", n, among=among, lo=lo) for i, n in enumerate(shape)]

    def search(engine, **kw):
        def make(sym):
            import pyrepseq
            seqs = strs(sym, (2, 1) if kw.get("n_cpu") else (2, 1, 2), "AC")
            return (lambda: getattr(pyrepseq, engine)(seqs, max_edits=1, **kw)), {"seqs": seqs}
        return make
    S["symdel"] = (search("symdel"), False)

    def symdel_k2(sym):
        import pyrepseq
        seqs = strs(sym, (2, 1, 2), "AC")
        return (lambda: pyrepseq.symdel(seqs, max_edits=2)), {"seqs": seqs}
    S["symdel/k=2"] = (symdel_k2, False)

    def hash_k2(sym):
        import pyrepseq
        seqs = strs(sym, (2, 1), "AC")
        return (lambda: pyrepseq.hash_based(seqs, max_edits=2)), {"seqs": seqs}
    S["hash_based/k=2"] = (hash_k2, False)
    S["nearest_neighbor/ndarray"] = (search("nearest_neighbor", output_type="ndarray"), False)
    S["hash_based"] = (search("hash_based"), False)
    S["kdtree"] = (search("kdtree"), False)
    S["kdtree/n_cpu=2"] = (search("kdtree", n_cpu=2), False)
    S["kdtree/hamming/max_returns"] = (search("kdtree", custom_distance="hamming", max_returns=1), False)

    def symdel2(sym):
        import pyrepseq
        seqs, qs = strs(sym, (2, 1)), [sym.sym_str("q0", 1)]
        return (lambda: pyrepseq.symdel(seqs, max_edits=1, seqs2=qs)), {"seqs": seqs, "seqs2": qs}
    S["symdel/seqs2"] = (symdel2, False)

    def invalid(sym):
        import pyrepseq
        seqs = ["AC", 3]
        return (lambda: pyrepseq.kdtree(seqs, max_edits=1)), {"seqs": seqs}
    S["kdtree/invalid"] = (invalid, False)

    def table(sym, nrows=3):
        from models import pd_model
        g = ["k%d" % (0 if sym.sym_int(f"g{r}", 0, 1) == 0 else 1) for r in range(nrows)]
        x = [sym.sym_int(f"x{r}", 0, 1) for r in range(nrows)]
        y = [sym.sym_str(f"y{r}", 1, lo=1) for r in range(nrows)]
        return pd_model.DataFrame({"grp": g, "x": x, "y": y}, index=[5 + r for r in range(nrows)])

    def pc_df(sym):
        from pyrepseq import stats
        df = table(sym)
        return (lambda: stats.pc(df)), {"df": df}
    S["pc/table"] = (pc_df, False)

    def pc_joint(sym):
        from pyrepseq import stats
        df, on = table(sym), ["x", "y"]
        return (lambda: stats.pc_joint(df, on)), {"df": df, "on": on}
    S["pc_joint"] = (pc_joint, False)

    def pc_cond(sym):
        from pyrepseq import stats
        df, by, w = table(sym, 4), ["grp"], [1, 2]
        return (lambda: stats.pc_conditional(df, by, "x")), {"df": df, "by": by}
    S["pc_conditional"] = (pc_cond, False)

    def pcd(sym):
        from pyrepseq import distance
        seqs, bins = strs(sym, (1, 1, 1), lo=1), [0, 1, 2]
        return (lambda: distance.pcDelta(seqs, bins=bins, normalize=False)), {"seqs": seqs, "bins": bins}
    S["pcDelta"] = (pcd, False)

    def pcd_grouped(sym):
        from pyrepseq import distance
        df, kw = table(sym, 4), dict(bins=[0, 1, 2], normalize=False)
        return (lambda: distance.pcDelta_grouped_cross(df, "grp", "y", condensed=True, **kw)), {"df": df, "kwargs": kw}
    S["pcDelta_grouped_cross"] = (pcd_grouped, False)

    def pcd_max(sym):
        from pyrepseq import distance
        seqs = strs(sym, (1, 1, 1), lo=1)
        return (lambda: distance.pcDelta(seqs, bins=[0, 1, 2], normalize=False, maxseqs=2)), {"seqs": seqs}
    S["pcDelta/maxseqs"] = (pcd_max, True)

    def subs(sym):
        from pyrepseq import stats
        counts = [sym.sym_int(f"c{i}", 0, 2) for i in range(2)]
        return (lambda: stats.subsample(counts, 1)), {"counts": counts}
    S["subsample"] = (subs, True)

    def std(sym):
        from pyrepseq import io
        from models import pd_model
        df = pd_model.DataFrame({"TRBV": [sym.sym_str("v", 1)], "CDR3B": [None], "extra": [sym.sym_str("e", 1)]}, index=[9])
        mapper = {"foo": "TRBJ"}
        return (lambda: io.standardize_dataframe(df, col_mapper=mapper)), {"df": df, "col_mapper": mapper}
    S["standardize_dataframe"] = (std, False)

    def mm(sym):
        from pyrepseq import io
        from models import pd_model
        dfs = [pd_model.DataFrame({"k": [1, 2], f"v{i}": [sym.sym_int(f"v{i}", 0, 3), 0]}) for i in range(2)]
        suffixes, kw = ["a", "b"], {"how": "inner"}
        return (lambda: io.multimerge(dfs, "k", suffixes=suffixes, **kw)), {"dfs": dfs, "df0": dfs[0], "suffixes": suffixes, "kwargs": kw}
    S["multimerge"] = (mm, False)

    def gc(sym):
        from pyrepseq import clustering
        adj = [(0, 1, sym.sym_int("d", 0, 2)), (1, 0, 1)]
        nodes = strs(sym, (1, 1, 1))
        return (lambda: clustering.graph_clustering(adj, nodes)), {"adj": adj, "nodes": nodes}
    S["graph_clustering"] = (gc, False)

    def hier(sym):
        from pyrepseq import distance
        seqs = strs(sym, (1, 1, 1), lo=1)
        return (lambda: distance.hierarchical_clustering(seqs)), {"seqs": seqs}
    S["hierarchical_clustering/defaults"] = (hier, False)

    def hier_any_size(custom):
        def make(sym):
            # the SIZE of the input is an explicit symbolic variable (0 .. 10^9): code that treats large inputs differently is on some path
            from pyrepseq import distance
            from pyrepseq.metric import Metric
            from models import sp_model
            n = sym.sym_int("n", 0, 10 ** 9)

            class Sized(list):
                def __len__(self):
                    return n

                @property
                def shape(self):
                    return (n,)

            class TermMetric(Metric):
                name = "term"

                def calc_pdist_vector(self, inst):
                    return sp_model.Term("metric.pdist", (id(inst),), {})

                def calc_cdist_matrix(self, a, b):
                    raise NotImplementedError
            seqs, m = Sized(), TermMetric()
            if custom:
                lk, ck = dict(method="single"), dict(t=2)
                return (lambda: distance.hierarchical_clustering(seqs, metric=m, linkage_kws=lk, cluster_kws=ck)), {"linkage_kws": lk, "cluster_kws": ck}
            return (lambda: distance.hierarchical_clustering(seqs, metric=m)), {}
        return make
    S["hierarchical_clustering/any-size/defaults"] = (hier_any_size(False), False)
    S["hierarchical_clustering/any-size/custom_kws"] = (hier_any_size(True), False)

    def tcrm(sym):
        from pyrepseq.metric import tcr_metric
        from models import misc_model, pd_model
        misc_model.TR_SEQ["table"] = lambda gene: {"CDR1-IMGT": "AA", "CDR2-IMGT": "C"}
        df = pd_model.DataFrame({"TRAV": ["TRAV1*01", "TRAV2*01"], "CDR3A": strs(sym, (1, 1), lo=1), "TRBV": ["TRBV1*01"] * 2,
                                 "CDR3B": ["CA", "CC"]}, index=[3, 3])
        m = tcr_metric.CdrLevenshtein(2, 1, 1)
        return (lambda: m.calc_cdist_matrix(df, df)), {"df": df}
    S["CdrLevenshtein.calc_cdist_matrix"] = (tcrm, False)

    def mkset(items):
        from crosshair.simplestructs import ShellMutableSet
        st = ShellMutableSet()
        for it in items:
            st.add(it)
        return st

    def util(fn, as_set, concrete=False):
        def make(sym):
            from pyrepseq import distance
            from vlib import symops as so
            if concrete:
                items = ["AC", "AA", "CA"]
                seqs = set(items) if as_set else list(items)
            else:
                items = strs(sym, (2, 2, 2), "AC")
                for i in range(3):
                    for j in range(i):
                        sym.assume(so.b_not(hc.str_eq_term(items[i], items[j])))
                seqs = mkset(items) if as_set else list(items)
            nb = lambda y: distance.hamming_neighbors(y, "AC")
            if fn == "find_neighbor_pairs":
                return (lambda: sorted(tuple(sorted(p)) for p in distance.find_neighbor_pairs(seqs, neighborhood=nb))), {"seqs": seqs}
            if fn == "find_neighbor_pairs_index":
                return (lambda: distance.find_neighbor_pairs_index(seqs, neighborhood=nb)), {"seqs": seqs}
            ref = mkset(items[1:]) if not concrete else set(items[1:])
            if fn == "calculate_neighbor_numbers":
                return (lambda: distance.calculate_neighbor_numbers(items, reference=ref, neighborhood=nb)), {"seqs": items, "reference": ref}
            if fn == "isdist1":
                return (lambda: distance.isdist1(items[0], ref, neighborhood=nb)), {"reference": ref}
            if fn == "nndist_hamming":
                return (lambda: distance.nndist_hamming(items[0], ref, maxdist=3)), {"reference": ref}
            if fn == "next_nearest_neighbors":
                return (lambda: sorted(distance.next_nearest_neighbors(items[0], nb, maxdistance=2))), {}
        return make
    S["find_neighbor_pairs/list"] = (util("find_neighbor_pairs", False), False)
    S["find_neighbor_pairs/set"] = (util("find_neighbor_pairs", True), False)
    S["find_neighbor_pairs/builtin-set"] = (util("find_neighbor_pairs", True, concrete=True), False)
    S["find_neighbor_pairs_index/list"] = (util("find_neighbor_pairs_index", False), False)
    S["calculate_neighbor_numbers/set-reference"] = (util("calculate_neighbor_numbers", False), False)
    S["calculate_neighbor_numbers/builtin-set"] = (util("calculate_neighbor_numbers", False, concrete=True), False)
    S["isdist1/set-reference"] = (util("isdist1", False), False)
    S["nndist_hamming/set-reference"] = (util("nndist_hamming", False), False)
    S["next_nearest_neighbors"] = (util("next_nearest_neighbors", False), False)

    def l2c(fn):
        def make(sym):
            from pyrepseq import plotting
            labels = [sym.sym_int(f"l{i}", 0, 2) for i in range(3)]
            return (lambda: getattr(plotting, fn)(labels, min_count=sym.sym_int("min_count", 1, 3, register=False) if False else 2)), {"labels": labels}
        return make
    S["labels_to_colors_hls"] = (l2c("labels_to_colors_hls"), True)
    S["labels_to_colors_tableau"] = (l2c("labels_to_colors_tableau"), True)

    def rf(sym):
        from pyrepseq import plotting
        from models.plot_model import Recorder
        data = [sym.sym_int(f"n{i}", 1, 3) for i in range(3)]
        ax = Recorder("ax")
        from models import plot_model
        return (lambda: (plot_model.reset(), plotting.rankfrequency(data, ax=ax), list(plot_model.CALLS))[2]), {"data": data}
    S["rankfrequency"] = (rf, False)

    def scm(sym):
        from pyrepseq import plotting
        from models import pd_model
        from models.plot_model import Recorder
        df = pd_model.DataFrame({"cdr3a": strs(sym, (1, 1, 1), lo=1), "cdr3b": ["CA", "CC", "CA"]}, index=[4, 5, 6])
        kws = dict(label="x")
        colorfn = Recorder("colorfn")
        return (lambda: plotting.similarity_clustermap(df, meta_to_colors=[lambda labels, **k: [0 for _ in range(3)]])[1:]), {"df": df}
    S["similarity_clustermap/defaults"] = (scm, False)

    def scm_kws(sym):
        from pyrepseq import plotting
        from models import pd_model
        df = pd_model.DataFrame({"cdr3a": strs(sym, (1, 1, 1), lo=1), "cdr3b": ["CA", "CC", "CA"]}, index=[4, 5, 6])
        cbar, link, clus = dict(label="mine"), dict(method="single"), dict(t=2, criterion="maxclust")
        return (lambda: plotting.similarity_clustermap(df, cbar_kws=cbar, linkage_kws=link, cluster_kws=clus,
                                                       meta_to_colors=[lambda labels, **k: [0 for _ in range(3)]])[1:]), \
            {"df": df, "cbar_kws": cbar, "linkage_kws": link, "cluster_kws": clus}
    S["similarity_clustermap/custom_kws"] = (scm_kws, False)
    return S


def _run(thunk):
    try:
        return ("ok", thunk())
    except Exception as e:  # noqa: the outcome "raised X" is part of the observable behaviour
        import traceback
        tb = traceback.extract_tb(e.__traceback__)
        where = "; ".join([str(f.filename).rsplit("/", 1)[-1] + ":" + str(f.lineno) for f in tb[-4:]])
        return ("raised", type(e).__name__, str(e)[:200] + " @ " + where)


def _body(name):
    def body():
        from models import np_model
        from vlib import sym, symops as so
        make, randomised = _scenarios()[name]
        thunk, watched = make(sym)
        snaps = {k: hc.shallow_snapshot(v) for k, v in watched.items()}
        _restore_globals()                 # pristine module state: what a fresh interpreter would see
        r0 = _run(thunk)
        if r0[0] == "raised" and name not in ("kdtree/invalid", "subsample"):
            return False, f"{name}: the scenario call raised {r0[1]}: {r0[2]}"
        for k, v in watched.items():
            if not hc.unchanged(v, snaps[k]):
                return False, f"{name}: argument {k!r} was modified by the call"
        bad = hc.defaults_intact(STATE["defaults"])
        if bad:
            return False, f"{name}: " + "; ".join(bad)[:400]
        trace = list(np_model.RANDOM.trace)
        _restore_globals()                 # the scenario's own first run is history too: start the dirty run from pristine state
        _havoc(sym)
        if randomised:
            np_model.RANDOM.trace = trace
            np_model.RANDOM.start_replay()
        r1 = _run(thunk)
        np_model.RANDOM.stop_replay()
        for k, v in watched.items():
            if not hc.unchanged(v, snaps[k]):
                return False, f"{name}: argument {k!r} was modified by the second call"
        bad = hc.defaults_intact(STATE["defaults"])
        if bad:
            return False, f"{name}: " + "; ".join(bad)[:400]
        if r0[0] != r1[0]:
            return False, f"{name}: first call {r0[0]}, after other calls {r1[0]} {r1[1] if r1[0] == 'raised' else ''}"
        if r0[0] == "raised":
            return r0[1] == r1[1], f"{name}: raised {r0[1]} then {r1[1]}"
        same = hc.same_value(_norm(r0[1]), _norm(r1[1]))
        return same, f"{name}: result changed after other calls"
    return body


def _norm(r):
    """results whose order is unspecified (sets of triplets) are compared as sorted lists when concrete positions allow"""
    if isinstance(r, list) and r and all(isinstance(t, tuple) and len(t) == 3 for t in r):
        try:
            return sorted(r, key=lambda t: (int(t[0]), int(t[1])))
        except Exception:  # noqa
            return r
    return r


def _replay(name):
    """Real stack: run the scenario's counterpart in a fresh interpreter state vs after other calls (concrete inputs)."""
    def replay(inputs):
        import copy
        import numpy as np
        import pandas as pd
        import pyrepseq
        from pyrepseq import plotting, stats, distance, io, clustering
        defaults0 = hc.mutable_defaults()

        def S(i, n=1):
            return inputs.get(f"s{i}", "A" * n)
        calls = {
            "symdel": lambda: sorted(pyrepseq.symdel([S(0, 2), S(1), S(2, 2)], max_edits=1)),
            "symdel/k=2": lambda: sorted(pyrepseq.symdel([S(0, 2), S(1), S(2, 2)], max_edits=2)),
            "hash_based/k=2": lambda: sorted(pyrepseq.hash_based([S(0, 2), S(1)], max_edits=2)),
            "nearest_neighbor/ndarray": lambda: pyrepseq.nearest_neighbor([S(0, 2), S(1), S(2, 2)], max_edits=1, output_type="ndarray").tolist(),
            "hash_based": lambda: sorted(pyrepseq.hash_based([S(0, 2), S(1), S(2, 2)], max_edits=1)),
            "kdtree": lambda: sorted(pyrepseq.kdtree([S(0, 2), S(1), S(2, 2)], max_edits=1)),
            "kdtree/n_cpu=2": lambda: sorted(pyrepseq.kdtree([S(0, 2), S(1), S(2, 2)], max_edits=1, n_cpu=2)),
            "kdtree/hamming/max_returns": lambda: sorted(pyrepseq.kdtree([S(0, 2), S(1), S(2, 2)], max_edits=1, custom_distance="hamming", max_returns=1)),
            "similarity_clustermap/defaults": lambda: [np.asarray(x).tolist() for x in plotting.similarity_clustermap(
                pd.DataFrame({"cdr3a": [S(0), S(1), S(2)], "cdr3b": ["CA", "CC", "CA"]}))[1:]],
            "labels_to_colors_hls": lambda: (np.random.seed(3), plotting.labels_to_colors_hls([int(inputs.get(f"l{i}", 0)) for i in range(3)], min_count=2))[1],
            "hierarchical_clustering/defaults": lambda: [np.asarray(x).tolist() for x in distance.hierarchical_clustering([S(0), S(1), S(2)])],
        }
        import matplotlib
        matplotlib.use("Agg")
        if name == "similarity_clustermap/custom_kws":
            cbar, link, clus = dict(label="mine"), dict(method="single"), dict(t=2, criterion="maxclust")
            before = copy.deepcopy((cbar, link, clus))
            plotting.similarity_clustermap(pd.DataFrame({"cdr3a": [S(0), S(1), S(2)], "cdr3b": ["CA", "CC", "CA"]}),
                                           cbar_kws=cbar, linkage_kws=link, cluster_kws=clus)
            same = list(before[0]) == list(cbar) and before[1] == link and before[2] == clus
            return same, f"similarity_clustermap modified a caller-supplied option dictionary: cbar_kws={cbar!r}"
        if name.startswith(("find_neighbor_pairs", "calculate_neighbor_numbers", "isdist1", "nndist_hamming")):
            items = [inputs.get("s0", "AC"), inputs.get("s1", "AA"), inputs.get("s2", "CA")]
            nb = lambda y: distance.hamming_neighbors(y, "AC")
            as_set = name.endswith("set")
            arg = set(items) if as_set else list(items)
            ref = set(items[1:])
            before_arg, before_ref = copy.copy(arg), copy.copy(ref)
            fn = name.split("/")[0]
            run = {"find_neighbor_pairs": lambda: sorted(tuple(sorted(p)) for p in distance.find_neighbor_pairs(arg, neighborhood=nb)),
                   "find_neighbor_pairs_index": lambda: distance.find_neighbor_pairs_index(arg, neighborhood=nb),
                   "calculate_neighbor_numbers": lambda: list(distance.calculate_neighbor_numbers(items, reference=ref, neighborhood=nb)),
                   "isdist1": lambda: distance.isdist1(items[0], ref, neighborhood=nb),
                   "nndist_hamming": lambda: distance.nndist_hamming(items[0], ref, maxdist=3)}[fn]
            r0 = run()
            if arg != before_arg or ref != before_ref:
                return False, f"{name}: the caller's collection was modified: {before_arg!r} -> {arg!r}, reference {before_ref!r} -> {ref!r}"
            r1 = run()
            return r0 == r1, f"{name}: {r0!r} then {r1!r}"
        if name.startswith("hierarchical_clustering/any-size"):
            # real SciPy, real pyrepseq: a collection of the witnessed size (genuine random CDR3-like strings up to 3000 elements; beyond that a
            # container that merely REPORTS that size, with a metric returning the distances of four points)
            import random
            from pyrepseq.metric import Metric
            n = int(inputs.get("n", 3))
            small = ["CASSLGQYF", "CASSLGAYF", "CATSLGQYF", "CASRRGQYF", "CASSLGQ", "CAWSVGQYF"]
            base0 = [np.asarray(x).tolist() for x in distance.hierarchical_clustering(list(small))]
            lk, ck = dict(method="single"), dict(t=2)
            before = copy.deepcopy((lk, ck))
            kw = dict(linkage_kws=lk, cluster_kws=ck) if name.endswith("custom_kws") else {}
            if 2 <= n <= 3000:
                rnd = random.Random(n)
                big = ["C" + "".join(rnd.choice("ACDEFGHIKLMNPQRSTVWY") for _ in range(rnd.randint(5, 9))) + "F" for _ in range(n)]
                distance.hierarchical_clustering(big, **kw)
            else:
                class Sized(list):
                    def __len__(self):
                        return n

                class Four(Metric):
                    name = "four"

                    def calc_pdist_vector(self, inst):
                        return np.array([1.0, 4.0, 5.0, 3.0, 6.0, 2.0])

                    def calc_cdist_matrix(self, a, b):
                        raise NotImplementedError
                distance.hierarchical_clustering(Sized(), metric=Four(), **kw)
            bad = hc.defaults_intact(defaults0)
            if bad:
                return False, f"{name}: after a call on {n} sequences: " + "; ".join(bad)[:400]
            if (lk, ck) != before:
                return False, f"{name}: after a call on {n} sequences the caller's option dictionaries changed from {before!r} to {(lk, ck)!r}"
            base1 = [np.asarray(x).tolist() for x in distance.hierarchical_clustering(list(small))]
            return base0 == base1, f"{name}: hierarchical_clustering of {small} gave {base0[0]!r} before and {base1[0]!r} after a call on {n} sequences"
        if name == "CdrLevenshtein.calc_cdist_matrix":
            from pyrepseq.metric import tcr_metric
            df = pd.DataFrame({"TRAV": ["TRAV1-1*01", "TRAV5*01"], "CDR3A": ["CAV" + S(0), "CAL" + S(1)], "TRBV": ["TRBV9*01", "TRBV10-1*01"],
                               "CDR3B": ["CASSF", "CASRF"]}, index=[3, 3])
            m = tcr_metric.CdrLevenshtein(2, 1, 1)
            m2 = tcr_metric.Cdr3Levenshtein(alpha_weight=3, beta_weight=2)
            before = df.copy(deep=True)
            r0, s0 = np.asarray(m.calc_cdist_matrix(df, df)).tolist(), np.asarray(m2.calc_cdist_matrix(df, df)).tolist()
            tcr_metric.CdrLevenshtein(3, 2, 5, alpha_weight=7, beta_weight=11, cdr1_weight=13, cdr2_weight=17, cdr3_weight=19).calc_cdist_matrix(df, df)
            tcr_metric.BetaCdr3Levenshtein(insertion_weight=4)
            distance.pcDelta(df[["TRAV", "CDR3A", "TRBV", "CDR3B"]].reset_index(drop=True), bins=np.arange(0, 30))
            r1, s1 = np.asarray(m.calc_cdist_matrix(df, df)).tolist(), np.asarray(m2.calc_cdist_matrix(df, df)).tolist()
            if not df.equals(before):
                return False, f"{name}: the caller's table was modified"
            return r0 == r1 and s0 == s1, (f"{name}: the same metric objects on the same table gave {r0!r} / {s0!r} before and {r1!r} / {s1!r} after other "
                                           "metrics were constructed and used")
        if name not in calls:
            return True, "no real-stack counterpart (wiring scenario)"
        # value in a FRESH interpreter (no history at all)
        import json as _json
        import subprocess
        import sys as _sys
        fresh = None
        _FRESH_USED[name] = _FRESH_USED.get(name, 0) + 1
        if name in ORACLE_CALLS and _FRESH_USED[name] <= 3:       # a new interpreter costs seconds: first three inputs per scenario
            code = ("import sys, json, warnings; warnings.filterwarnings('ignore'); sys.path[:0] = %r; import pyrepseq; "
                    "print(json.dumps(sorted([list(map(float, t)) for t in %s])))" % ([hc_path(), rt_repo()], ORACLE_CALLS[name] % tuple(repr(S(i, n)) for i, n in ((0, 2), (1, 1), (2, 2)))))
            out = subprocess.run([_sys.executable, "-c", code], stdout=subprocess.PIPE, stderr=subprocess.PIPE, timeout=120)
            if out.returncode == 0:
                fresh = _json.loads(out.stdout.decode().strip().splitlines()[-1])
        # history with OTHER parameters first, then the scenario
        pyrepseq.kdtree(["AA", "AC", "A"], max_edits=2, max_returns=1, custom_distance="hamming")
        pyrepseq.symdel(["AA", "C", "AC"], max_edits=1)
        pyrepseq.hash_based(["AA", "C"], max_edits=1)
        every = sorted({"A", "C", "AA", "AC", "CA", "CC"} | {x for x in (S(0, 2), S(1), S(2, 2)) if set(x) <= set("ACDEFGHIKLMNPQRSTVWY")})
        pyrepseq.hash_based(list(every), max_edits=3)
        pyrepseq.hash_based(list(every), max_edits=3, custom_distance="hamming")
        pyrepseq.symdel(list(every), max_edits=3)
        pyrepseq.kdtree(list(every), max_edits=3)
        try:
            pyrepseq.symdel([], max_edits=1)
        except Exception:
            pass
        r0 = calls[name]()
        r1 = calls[name]()
        bad = hc.defaults_intact(defaults0)
        if bad:
            return False, f"{name}: " + "; ".join(bad)[:400]
        if fresh is not None and sorted([list(map(float, t)) for t in r0]) != fresh:
            return False, f"{name}: after other calls {r0!r}, in a fresh interpreter {fresh!r}"
        return r0 == r1, f"{name}: {r0!r} then {r1!r}"
    return replay


_FRESH_USED = {}
ORACLE_CALLS = {
    "symdel": "pyrepseq.symdel([%s, %s, %s], max_edits=1)",
    "symdel/k=2": "pyrepseq.symdel([%s, %s, %s], max_edits=2)",
    "hash_based": "pyrepseq.hash_based([%s, %s, %s], max_edits=1)",
    "kdtree": "pyrepseq.kdtree([%s, %s, %s], max_edits=1)",
}


def hc_path():
    import os
    return os.path.dirname(os.path.dirname(os.path.abspath(__file__)))


def rt_repo():
    from vlib.rt import REPO
    return REPO


def _probe_process_state():
    """process-wide state outside pyrepseq that later results depend on - NumPy's floating-point error mode, its print options, the state of the
    global random generator, pandas options, warning filters - is the same after a battery of public calls (several of which raise)"""
    import warnings
    import numpy as np
    import pandas as pd
    import pyrepseq
    from pyrepseq import stats, distance, entropy, io, clustering
    from pyrepseq.metric import Levenshtein, WeightedLevenshtein

    def snapshot():
        st = np.random.get_state()
        return {"np.geterr": dict(np.geterr()), "np.printoptions": {k: v for k, v in np.get_printoptions().items() if k != "formatter"},
                "np.random state": (st[0], st[1].tobytes(), st[2], st[3], st[4]), "pandas copy_on_write": pd.get_option("mode.copy_on_write"),
                "pandas chained_assignment": pd.get_option("mode.chained_assignment") if "mode.chained_assignment" in pd.options.mode.__dir__() else None,
                "warning filters": len(warnings.filters)}
    df = pd.DataFrame({"TRAV": ["TRAV1-1*01", "TRAV5*01"], "CDR3A": ["CAVF", "CALF"], "TRBV": ["TRBV9*01", "TRBV10-1*01"], "CDR3B": ["CASSF", "CASRF"]})
    deterministic = [
        lambda: pyrepseq.nearest_neighbor(["CASSF", "CASSL", "CAS"], max_edits=1),
        lambda: pyrepseq.kdtree(["CASSF", "CASSL", "CAS"], max_edits=2, n_cpu=2),
        lambda: pyrepseq.hash_based(["CASSF", "CASSL"], max_edits=1, output_type="ndarray"),
        lambda: pyrepseq.symdel([], max_edits=1),                                            # raises
        lambda: pyrepseq.kdtree(["CASSF"], max_edits=0),                                     # raises
        lambda: stats.pc(["X"]),                                                             # nan (0/0)
        lambda: stats.pc(["a", "b", "a"]), lambda: stats.pc_n([2, 1]), lambda: stats.varpc_n(np.array([3, 2, 1])),
        lambda: stats.chao1([3, 0]), lambda: stats.var_chao1([3, 0]), lambda: stats.jaccard_index([1, 2], pd.Series([2, None])),
        lambda: stats.powerlaw_mle_alpha([1, 1, 2, 3, 9], method="simple"),
        lambda: stats.powerlaw_mle_alpha([1, 1, 2, 3, 9], options=dict(maxiter=1)),          # fitting fails -> raises
        lambda: stats.powerlaw_mle_alpha([1, 1, 1, 2, 3, 9]),
        lambda: stats.powerlaw_mle_alpha([0, 1, 2], cmin=0),                                 # log(0) inside the likelihood
        lambda: entropy.renyi2_entropy(pd.DataFrame({"a": ["x", "y", "z"]}), "a"),           # inf
        lambda: distance.pcDelta(["CASSF", "CASSL", "CAS"], bins=np.arange(0, 5)),
        lambda: distance.pcDelta(df), lambda: distance.hierarchical_clustering(["CASSF", "CASSL", "CAS", "CQ"]),
        lambda: Levenshtein().calc_pdist_vector(["CA", "CAS"]), lambda: WeightedLevenshtein(2, 1, 3).calc_cdist_matrix(["CA"], ["CAS", ""]),
        lambda: io.standardize_dataframe(df.rename(columns={"CDR3A": "foo"}), col_mapper={"foo": "CDR3A"}, suppress_warnings=True),
        lambda: io.standardize_dataframe(df, df_old=df),                                     # raises
        lambda: clustering.graph_clustering([(0, 1, 1)], ["a", "b", "c"]),
        lambda: distance.nndist_hamming("CAS", {"CAT", "CA"}, maxdist=3),
    ]
    np.random.seed(4321)
    before = snapshot()
    with warnings.catch_warnings():
        warnings.simplefilter("ignore")
        for call in deterministic:
            try:
                call()
            except Exception:  # noqa
                pass
    after = snapshot()
    bad = [f"{k}: {before[k] if k != 'np.random state' else '<state>'} -> {after[k] if k != 'np.random state' else '<another state>'}" for k in before if before[k] != after[k]]
    with warnings.catch_warnings():
        warnings.simplefilter("ignore")
        try:
            v = stats.pc(["X"])
            if v == v:
                bad.append(f"pc(['X']) = {v!r} after the calls, nan expected")
        except Exception as e:  # noqa
            bad.append(f"pc(['X']) raised {type(e).__name__} after the calls (nan in a fresh interpreter)")
    return not bad, "[process-state probe] " + ("; ".join(bad) if bad else "ok")


def _probe_seeded_at_scale():
    """randomised public functions at sizes no symbolic bound reaches (a change may switch algorithm - and generator - above a size threshold):
    the same NumPy seed gives the same value, also with other pyrepseq calls in between, and arguments stay untouched"""
    import numpy as np
    import pyrepseq
    from pyrepseq import stats, distance, plotting
    rnd = np.random.RandomState(12345)
    big_counts = [600000, 400001, 7, 0, 2]                      # 1 000 010 individuals
    mid_counts = [70000, 30000, 5]
    seqs = ["C" + "".join(rnd.choice(list("ACDEFGHIKLMNPQRSTVWY"), 8)) + "F" for _ in range(3000)]
    labels = [int(x) for x in rnd.randint(0, 400, size=5000)]
    calls = {
        "subsample(1 000 010 individuals, n=1000)": lambda: [a.tolist() for a in stats.subsample(list(big_counts), 1000)],
        "subsample(100 005 individuals, n=500)": lambda: [a.tolist() for a in stats.subsample(np.array(mid_counts), 500)],
        "downsample(3000 sequences, 100)": lambda: list(distance.downsample(list(seqs), 100)),
        "powerlaw_sample(size=200000)": lambda: float(np.sum(stats.powerlaw_sample(size=200000, xmin=1, alpha=2.5))),
        "pcDelta(3000 sequences, maxseqs=60)": lambda: distance.pcDelta(list(seqs), maxseqs=60, normalize=False).tolist(),
        "labels_to_colors_hls(5000 labels)": lambda: [tuple(map(float, c)) for c in plotting.labels_to_colors_hls(list(labels))[:50]],
    }
    bad = []
    for name, fn in calls.items():
        np.random.seed(77)
        r1 = fn()
        pyrepseq.symdel(["CASSF", "CASSL"], max_edits=1)          # deterministic calls in between do not consume randomness
        stats.pc(["a", "b", "a"])
        np.random.seed(77)
        r2 = fn()
        if r1 != r2:
            bad.append(f"{name}: two calls with np.random.seed(77) differ")
    if big_counts != [600000, 400001, 7, 0, 2] or len(seqs) != 3000:
        bad.append("an argument was modified")
    return not bad, "[seeded-at-scale probe] " + ("; ".join(bad) if bad else "ok")


def conditions(tier):
    out = []
    for name in _scenarios():
        out.append(Condition(f"C20/{name}", _body(name), _replay(name), budget=600 if tier == "quick" else 3000, models=M, setup=_setup,
                             bounds=f"inductive step for {name}: arguments, all mutable defaults, result before/after havoc + interposed calls"))
    out.append(hc.probe_condition("C20/probe/randomised-calls-at-scale", "subsample on 10^5 and 10^6+ individuals, downsample / pcDelta(maxseqs) on 3000 sequences, powerlaw_sample of "
                                  "200 000 draws, labels_to_colors_hls on 5000 labels: same NumPy seed -> same value, arguments untouched", _probe_seeded_at_scale))
    out.append(hc.probe_condition("C20/probe/process-wide-state", "NumPy error mode / print options / global generator state, pandas options and warning filters before and after 26 "
                                  "public calls (deterministic ones, six of them raising): unchanged, and pc of a one-element sample is still nan", _probe_process_state))
    return out
