"""C02 - coincidence probability pc is the exact fraction of coinciding pairs.

(a) SMT engine + REAL NumPy: pc(xs), pc(xs, ys) on symbolic integer labels (np.unique / intersect1d run on symbolic objects,
    every comparison forks), (b) SMT: pc_n on symbolic count vectors, (c) XH + pandas/NumPy models: tables of free strings with
    symbolic missing cells through pc(df), pc_joint(df, cols), pc(df1, df2) and the legacy (alpha, beta) tuple form."""
from fractions import Fraction

from vlib.rt import Condition

PROPERTY = "C02"
BOUNDS = ("(a) samples of N <= 5 (quick) / 6 (thorough) symbolic integer labels, two-sample N1, N2 <= 3 / 4; also free-string labels "
          "(N <= 3) through the NumPy model; (b) count vectors of length K <= 6 with arbitrary non-negative integers, N >= 2; "
          "(c) tables of 2-3 rows x 1-3 columns, each cell a free string (length 1-2, code points other than '.' and '_') or missing")
OUTSIDE = ["N > 6", "mixed-type columns (1 vs '1')", "cells containing the join characters '.' / '_' or the literal 'nan'",
           "IEEE rounding of the final division (checked to 1e-9)"]
ASSUMPTIONS = ["NumPy's unique/intersect1d are exercised for real on symbolic objects in (a); contract models in (c)",
               "pandas subset model (pandas 3.0 semantics: astype(str) keeps missing values missing)", "reals for floats"]


# ---------------------------------------------------------------- (a) arrays of symbolic labels, real NumPy
def _pairs_term(z3, xs, ys=None):
    if ys is None:
        return z3.Sum([z3.If(xs[i] == xs[j], 1, 0) for i in range(len(xs)) for j in range(len(xs)) if i != j])
    return z3.Sum([z3.If(x == y, 1, 0) for x in xs for y in ys])


def _close(z3, got, num_term, den):
    """|got * den - num| <= 1e-6 with got a concrete float"""
    fr = Fraction(float(got)) * den
    g = z3.RealVal(fr.numerator) / z3.RealVal(fr.denominator)
    tol = z3.RealVal("1/1000000")
    n = z3.ToReal(num_term)
    return z3.And(g - n <= tol, n - g <= tol)


def _body_arr(N, N2):
    def body(E):
        import numpy as np
        import z3
        from pyrepseq import stats
        xs = [E.int(f"x{i}", 0, N + (N2 or 0)) for i in range(N)]
        if N2 is None:
            got = stats.pc(list(xs))
            claim = [_close(z3, got, _pairs_term(z3, [x.term for x in xs]), N * (N - 1))]
            _, counts = np.unique(np.array(xs, dtype=object), return_counts=True)
            via_n = stats.pc_n(counts)
            claim.append(z3.BoolVal(abs(float(via_n) - float(got)) <= 1e-12))
            got_arr = stats.pc(np.array(xs, dtype=object))
            claim.append(z3.BoolVal(abs(float(got_arr) - float(got)) <= 1e-12))
        else:
            ys = [E.int(f"y{i}", 0, N + N2) for i in range(N2)]
            got = stats.pc(list(xs), list(ys))
            claim = [_close(z3, got, _pairs_term(z3, [x.term for x in xs], [y.term for y in ys]), N * N2)]
            rev = stats.pc(list(ys), list(xs))
            claim.append(z3.BoolVal(abs(float(rev) - float(got)) <= 1e-12))
        claim.append(z3.BoolVal(0.0 <= float(got) <= 1.0))
        return (z3.And(*claim), f"pc returned {got!r}")
    return body


def _replay_arr(N, N2):
    def replay(inputs):
        import numpy as np
        from pyrepseq import stats
        xs = [int(inputs[f"x{i}"]) for i in range(N)]
        if N2 is None:
            got = stats.pc(xs)
            want = Fraction(sum(1 for i in range(N) for j in range(N) if i != j and xs[i] == xs[j]), N * (N - 1))
            _, c = np.unique(xs, return_counts=True)
            ok = abs(got - float(want)) <= 1e-9 and abs(stats.pc_n(c) - got) <= 1e-12 and 0 <= got <= 1
            perm = stats.pc(list(reversed([x * 7 + 3 for x in xs])))           # reordering + injective relabelling
            ok = ok and abs(perm - got) <= 1e-12
            return ok, f"pc({xs}) = {got!r}, expected {want}; pc_n(counts)={stats.pc_n(c)!r}; relabelled/reordered {perm!r}"
        ys = [int(inputs[f"y{i}"]) for i in range(N2)]
        got = stats.pc(xs, ys)
        want = Fraction(sum(1 for x in xs for y in ys if x == y), N * N2)
        return abs(got - float(want)) <= 1e-9 and 0 <= got <= 1, f"pc({xs}, {ys}) = {got!r}, expected {want}"
    return replay


# ---------------------------------------------------------------- (b) pc_n closed form
def _body_pcn(K, as_list):
    def body(E):
        import numpy as np
        import z3
        from pyrepseq import stats
        # K <= 4: integer counts (also 0 <= pc_n <= 1, which needs integrality); K >= 5: the closed form is a rational
        # identity, decided over the reals (a superset of the integers) where nlsat is complete
        ints = K <= 3
        cs = [E.int(f"c{i}", 0) if ints else E.real(f"c{i}", lo=0) for i in range(K)]
        t = [c.term for c in cs]
        Nn = z3.Sum(t) if K > 1 else t[0]
        E.assume(Nn >= 2)
        got = stats.pc_n(list(cs) if as_list else np.array(cs, dtype=object))
        num = z3.Sum([x * (x - 1) for x in t]) if K > 1 else t[0] * (t[0] - 1)
        den = Nn * (Nn - 1)
        if ints:
            num, den = z3.ToReal(num), z3.ToReal(den)
        g = got.term
        g = z3.ToReal(g) if g.sort() == z3.IntSort() else g
        eq = E.prove_any([g == num / den, g * den == num])
        if eq is not True:
            return (eq, f"pc_n returned {got}")
        claims = [g >= 0, g <= 1] if ints else []
        return (z3.And(*claims) if claims else True, f"pc_n returned {got}")
    return body


def _replay_pcn(K, as_list):
    def replay(inputs):
        import numpy as np
        from pyrepseq import stats
        from vlib.smt import from_model
        c = [from_model(inputs[f"c{i}"]) for i in range(K)]
        if all(x.denominator == 1 for x in c):
            c = [int(x) for x in c]
            got = stats.pc_n(list(c) if as_list else np.array(c))
        else:          # counts were relaxed to reals (K >= 4): evaluate the real function exactly on rationals
            got = stats.pc_n(list(c) if as_list else np.array(c, dtype=object))
        N = sum(c)
        want = Fraction(sum(x * (x - 1) for x in c)) / Fraction(N * (N - 1))
        return abs(float(got) - float(want)) <= 1e-9, f"pc_n({c}) = {got!r}, expected {want}"
    return replay


# ---------------------------------------------------------------- (a') free-string labels through the NumPy model (XH)
def _body_strs(shape, shape2):
    def body():
        from pyrepseq import stats
        from vlib import sym, symops as so
        from harness import common as hc
        xs = [sym.sym_str(f"x{i}", n) for i, n in enumerate(shape)]
        if shape2 is None:
            got = stats.pc(xs)
            pairs = so.count_true([hc.str_eq_term(xs[i], xs[j]) for i in range(len(xs)) for j in range(len(xs)) if i != j])
            den = len(xs) * (len(xs) - 1)
        elif shape2 == "same":
            got = stats.pc(xs, xs)           # ONE object as both samples: still the cross form, every position also meets itself
            pairs = so.count_true([hc.str_eq_term(x, y) for x in xs for y in xs])
            den = len(xs) * len(xs)
        else:
            ys = [sym.sym_str(f"y{i}", n) for i, n in enumerate(shape2)]
            got = stats.pc(xs, ys)
            pairs = so.count_true([hc.str_eq_term(x, y) for x in xs for y in ys])
            den = len(xs) * len(ys)
        return so.close(so.mul(got, den), pairs, 1e-6), (lambda: f"pc returned {got!r}")
    return body


def _replay_strs(shape, shape2):
    def replay(inputs):
        from pyrepseq import stats
        xs = [inputs[f"x{i}"] for i in range(len(shape))]
        if any("\x00" in x for x in xs):
            return True, "NUL characters are not representable in NumPy string arrays"
        if shape2 is None:
            got = stats.pc(xs)
            want = Fraction(sum(1 for i in range(len(xs)) for j in range(len(xs)) if i != j and xs[i] == xs[j]), len(xs) * (len(xs) - 1))
            return abs(got - float(want)) <= 1e-9, f"pc({xs!r}) = {got!r}, expected {want}"
        ys = xs if shape2 == "same" else [inputs[f"y{i}"] for i in range(len(shape2))]
        if any("\x00" in y for y in ys):
            return True, ""
        got = stats.pc(xs, ys)
        want = Fraction(sum(1 for x in xs for y in ys if x == y), len(xs) * len(ys))
        return abs(got - float(want)) <= 1e-9, f"pc({xs!r}, {ys!r}) = {got!r}, expected {want}"
    return replay


def _body_int_float(n1, n2):
    def body():
        from pyrepseq import stats
        from vlib import sym, symops as so
        xs = [sym.sym_int(f"x{i}", 0, 3) for i in range(n1)]
        ys = [so.add(sym.sym_int(f"y{i}", 0, 3), 0.5) for i in range(n2)]      # half-integers never coincide with integers
        got = stats.pc(list(xs), list(ys))
        rev = stats.pc(list(ys), list(xs))
        return so.b_and(so.close(got, 0, 1e-12), so.close(rev, 0, 1e-12)), f"pc(ints, half-integers) = {got!r} / reversed {rev!r}, expected 0"
    return body


def _replay_int_float(n1, n2):
    def replay(inputs):
        from pyrepseq import stats
        xs = [int(inputs[f"x{i}"]) for i in range(n1)]
        ys = [int(inputs[f"y{i}"]) + 0.5 for i in range(n2)]
        got, rev = stats.pc(xs, ys), stats.pc(ys, xs)
        return got == 0 and rev == 0, f"pc({xs}, {ys}) = {got!r}, reversed {rev!r}, expected 0"
    return replay


# ---------------------------------------------------------------- (c) tables
COLS = ["CDR3A", "CDR3B", "V"]


def _cell(sym, name, length):
    missing = bool(sym.sym_bool(f"{name}_missing"))       # fork: present / missing
    s = sym.sym_str(name, length, lo=1)
    if missing:
        return None
    return s


def _no_join_chars(sym, so, cells):
    for c in cells:
        if c is None:
            continue
        for i in range(len(c)):
            sym.assume(so.b_and(so.ne(ord(c[i]), ord(".")), so.ne(ord(c[i]), ord("_")), so.ne(ord(c[i]), ord("|"))))


def _rows_equal(so, hc, r1, r2):
    conds = []
    for a, b in zip(r1, r2):
        if a is None or b is None:
            conds.append(a is None and b is None)
        else:
            conds.append(hc.str_eq_term(a, b))
    return so.b_and(*conds)


def _body_table(lens, mode, lens2=None):
    """lens: per-row tuple of per-column cell lengths"""
    def body():
        from pyrepseq import stats
        from models import pd_model
        from vlib import sym, symops as so
        from harness import common as hc
        ncol = len(lens[0])
        rows = [[_cell(sym, f"t{r}_{c}", lens[r][c]) for c in range(ncol)] for r in range(len(lens))]
        _no_join_chars(sym, so, [c for row in rows for c in row])
        names = COLS[:ncol]
        df = pd_model.DataFrame({n: [row[j] for row in rows] for j, n in enumerate(names)})
        if lens2 is None:
            pairs = so.count_true([_rows_equal(so, hc, rows[i], rows[j]) for i in range(len(rows)) for j in range(len(rows)) if i != j])
            den = len(rows) * (len(rows) - 1)
            if mode == "pc":
                got = stats.pc(df)
            elif mode == "pc_joint":
                got = stats.pc_joint(df, list(names))
            elif mode == "pc_joint_gap":           # a caller-chosen separator that occurs in no cell changes nothing
                got = stats.pc_joint(df, list(names), gap_token="|")
            elif mode == "tuple":
                got = stats.pc((list(df._cols[names[0]]), list(df._cols[names[1]])))
            elif mode == "tuple-series":      # legacy tuple of two Series whose index labels differ: chains pair up by POSITION
                n_ = len(rows)
                got = stats.pc((pd_model.Series(list(df._cols[names[0]])), pd_model.Series(list(df._cols[names[1]]), index=list(range(10 + n_, 10, -1)))))
            else:   # pc_joint on a column subset vs pc of that sub-table
                sub = names[:-1]
                got = stats.pc_joint(df, list(sub))
                pairs = so.count_true([_rows_equal(so, hc, rows[i][:-1], rows[j][:-1]) for i in range(len(rows))
                                       for j in range(len(rows)) if i != j])
        else:
            rows2 = [[_cell(sym, f"u{r}_{c}", lens2[r][c]) for c in range(ncol)] for r in range(len(lens2))]
            _no_join_chars(sym, so, [c for row in rows2 for c in row])
            df2 = pd_model.DataFrame({n: [row[j] for row in rows2] for j, n in enumerate(names)})
            pairs = so.count_true([_rows_equal(so, hc, a, b) for a in rows for b in rows2])
            den = len(rows) * len(rows2)
            got = (stats.pc(df, df2) if mode == "pc" else stats.pc_joint(df, list(names), df2, gap_token="|") if mode == "pc_joint_gap"
                   else stats.pc_joint(df, list(names), df2))
        ok = so.b_and(so.close(so.mul(got, den), pairs, 1e-6), so.ge(got, 0), so.le(got, 1))
        return ok, f"{mode} returned {got!r}"
    return body


def _replay_table(lens, mode, lens2=None):
    def replay(inputs):
        import pandas as pd
        from pyrepseq import stats
        ncol = len(lens[0])
        names = COLS[:ncol]

        def table(prefix, L):
            return [[None if inputs.get(f"{prefix}{r}_{c}_missing") else inputs[f"{prefix}{r}_{c}"] for c in range(ncol)]
                    for r in range(len(L))]
        rows = table("t", lens)
        df = pd.DataFrame(rows, columns=names, dtype=object)
        if lens2 is None:
            den = len(rows) * (len(rows) - 1)
            if mode == "pc":
                got, use = stats.pc(df), rows
            elif mode == "pc_joint":
                got, use = stats.pc_joint(df, list(names)), rows
            elif mode == "pc_joint_gap":
                got, use = stats.pc_joint(df, list(names), gap_token="|"), rows
            elif mode == "tuple":
                got, use = stats.pc((list(df[names[0]]), list(df[names[1]]))), rows
            elif mode == "tuple-series":
                n_ = len(rows)
                got, use = stats.pc((pd.Series(list(df[names[0]]), dtype=object), pd.Series(list(df[names[1]]), index=list(range(10 + n_, 10, -1)), dtype=object))), rows
                got_p = stats.pc((pd.Series(list(df[names[0]]), dtype=object), pd.Series(list(df[names[1]]), index=list(range(n_ - 1, -1, -1)), dtype=object)))
                if abs(float(got_p) - float(got)) > 1e-9:
                    return False, f"pc of an (alpha, beta) tuple of Series depends on the index labels of the beta Series: {got!r} (labels {10 + n_}..11) vs {got_p!r} (labels {n_ - 1}..0) for rows {rows!r}"
            else:
                got, use = stats.pc_joint(df, list(names[:-1])), [r[:-1] for r in rows]
            want = Fraction(sum(1 for i in range(len(use)) for j in range(len(use)) if i != j and use[i] == use[j]), den)
            desc = f"{mode}({rows!r})"
        else:
            rows2 = table("u", lens2)
            df2 = pd.DataFrame(rows2, columns=names, dtype=object)
            got = (stats.pc(df, df2) if mode == "pc" else stats.pc_joint(df, list(names), df2, gap_token="|") if mode == "pc_joint_gap"
                   else stats.pc_joint(df, list(names), df2))
            want = Fraction(sum(1 for a in rows for b in rows2 if a == b), len(rows) * len(rows2))
            desc = f"{mode}({rows!r}, {rows2!r})"
        return abs(float(got) - float(want)) <= 1e-9, f"{desc} = {got!r}, expected {want}"
    return replay


def _probe_dtypes():
    """pc_n / pc on count vectors and labels held in NARROW NumPy dtypes (a count column read from a file is often int32 / int16): every term
    n_i (n_i - 1) fits the dtype, their sum does not - the result must still be the exact ratio"""
    import numpy as np
    import pandas as pd
    from pyrepseq import stats
    bad = []
    cases = [("uint8", [10, 10, 10]), ("int16", [150, 150] + [1] * 20), ("int32", [40000, 40000, 35000, 7, 1]), ("uint16", [200, 180, 3]),
             ("int64", [40000, 40000, 35000, 7, 1]), ("int8", [11, 11, 2])]
    for dt, counts in cases:
        N = sum(counts)
        want = Fraction(sum(c * (c - 1) for c in counts), N * (N - 1))
        for name, arg in (("array", np.array(counts, dtype=dt)), ("Series", pd.Series(np.array(counts, dtype=dt))), ("list", list(counts))):
            got = float(stats.pc_n(arg))
            if abs(got - float(want)) > 1e-9:
                bad.append(f"pc_n({dt} {name} {counts if len(counts) < 8 else str(counts[:4]) + '...'}) = {got!r}, expected {float(want)!r}")
        if N <= 400:
            labels = np.repeat(np.arange(len(counts)), counts).astype(dt if np.dtype(dt).kind in "iu" else "int64")
            got = float(stats.pc(labels))
            if abs(got - float(want)) > 1e-9:
                bad.append(f"pc({dt} labels with multiplicities {counts[:4]}...) = {got!r}, expected {float(want)!r}")
    return not bad, "[narrow-dtype probe] " + ("; ".join(bad) if bad else "ok")


def conditions(tier):
    out = []
    NA, NB = (5, 3) if tier == "quick" else (6, 4)
    for N in range(2, NA + 1):
        out.append(Condition(f"C02/pc/ints/N={N}", _body_arr(N, None), _replay_arr(N, None), budget=600 if tier == "quick" else 3000,
                             engine="SMT", bounds=f"{N} symbolic integer labels, real NumPy"))
    for N1 in range(1, NB + 1):
        for N2 in range(1, NB + 1):
            if N1 + N2 > (5 if tier == "quick" else 7):
                continue
            out.append(Condition(f"C02/pc2/ints/N1={N1}/N2={N2}", _body_arr(N1, N2), _replay_arr(N1, N2),
                                 budget=600 if tier == "quick" else 3000, engine="SMT",
                                 bounds=f"{N1} x {N2} symbolic integer labels, real NumPy"))
    for K in range(1, 7):
        for as_list in (False, True):
            out.append(Condition(f"C02/pc_n/K={K}/" + ("list" if as_list else "array"), _body_pcn(K, as_list), _replay_pcn(K, as_list),
                                 budget=120, engine="SMT", bounds=f"{K} symbolic non-negative integer counts, N >= 2"))
    M = ("np", "pd")
    for shape in [(1, 1), (2, 2), (1, 1, 1), (2, 1, 2)]:
        out.append(Condition(f"C02/pc/strs/len={','.join(map(str, shape))}", _body_strs(shape, None), _replay_strs(shape, None),
                             budget=200, models=M, bounds=f"free Unicode strings of lengths {shape} (NumPy model)"))
    for sa in [(1, 1), (1, 1, 1)]:
        out.append(Condition(f"C02/pc2/strs/len={','.join(map(str, sa))}/the-same-object", _body_strs(sa, "same"), _replay_strs(sa, "same"), budget=200, models=M,
                             bounds=f"pc(x, x) with ONE list of free strings of lengths {sa} as both samples: (number of equal ordered position pairs incl. i=i) / N^2"))
    out.append(Condition("C02/pc2/strs/len=1,1/1,1", _body_strs((1, 1), (1, 1)), _replay_strs((1, 1), (1, 1)), budget=200, models=M,
                         bounds="2 x 2 free one-letter strings"))
    for sa, sb in [((1,), (2,)), ((2,), (1, 2)), ((1, 2), (2, 3))]:
        out.append(Condition(f"C02/pc2/strs/len={','.join(map(str, sa))}/{','.join(map(str, sb))}", _body_strs(sa, sb), _replay_strs(sa, sb),
                             budget=300, models=M, bounds=f"two samples of free strings with different lengths {sa} / {sb}"))
    out.append(Condition("C02/pc2/ints-vs-halfintegers/2x2", _body_int_float(2, 2), _replay_int_float(2, 2), budget=300, models=M,
                         bounds="2 symbolic integers against 2 symbolic half-integers (mixed numeric dtypes)"))
    T = [
        ("2x1", ((1,), (1,))), ("3x1", ((1,), (1,), (1,))), ("2x2", ((1, 1), (1, 1))), ("2x2sep", ((2, 1), (1, 2))),
        ("3x2", ((1, 1), (1, 1), (1, 1))), ("2x3", ((1, 1, 1), (1, 1, 1))),
    ]
    for name, lens in T:
        ncol = len(lens[0])
        modes = ["pc", "pc_joint"] + (["tuple", "tuple-series"] if ncol == 2 else []) + (["subset"] if ncol >= 2 else [])
        for mode in modes:
            if tier == "quick" and name in ("3x2", "2x3") and mode in ("tuple", "subset"):
                continue
            out.append(Condition(f"C02/table/{mode}/{name}", _body_table(lens, mode), _replay_table(lens, mode), budget=300, models=M,
                                 bounds=f"table {name} (cell lengths {lens}), cells free strings or missing, {mode}"))
    for mode in ("pc", "pc_joint"):
        out.append(Condition(f"C02/table2/{mode}/2x1-1x1", _body_table(((1,), (1,)), mode, ((1,),)), _replay_table(((1,), (1,)), mode, ((1,),)),
                             budget=300, models=M, bounds="two tables 2x1 and 1x1"))
        out.append(Condition(f"C02/table2/{mode}/1x1-1x1long", _body_table(((1,),), mode, ((2,),)), _replay_table(((1,),), mode, ((2,),)),
                             budget=300, models=M, bounds="two one-cell tables, the second cell longer than the first"))
        out.append(Condition(f"C02/table2/{mode}/1x2-2x2", _body_table(((1, 1),), mode, ((1, 1), (1, 1))),
                             _replay_table(((1, 1),), mode, ((1, 1), (1, 1))), budget=300, models=M, bounds="two tables 1x2 and 2x2"))
    out.append(Condition("C02/table/pc_joint_gap/2x2", _body_table(((1, 1), (1, 1)), "pc_joint_gap"), _replay_table(((1, 1), (1, 1)), "pc_joint_gap"),
                         budget=300, models=M, bounds="table 2x2, pc_joint with gap_token='|' (a character occurring in no cell)"))
    out.append(Condition("C02/table2/pc_joint_gap/1x2-2x2", _body_table(((1, 1),), "pc_joint_gap", ((1, 1), (1, 1))),
                         _replay_table(((1, 1),), "pc_joint_gap", ((1, 1), (1, 1))), budget=300, models=M,
                         bounds="two tables 1x2 and 2x2, pc_joint with gap_token='|'"))
    if tier == "thorough":
        for name, lens in [("3x2sep", ((2, 1), (1, 2), (1, 1))), ("3x3", ((1, 1, 1),) * 3), ("4x1", ((1,),) * 4)]:
            for mode in ("pc", "pc_joint"):
                out.append(Condition(f"C02/table/{mode}/{name}", _body_table(lens, mode), _replay_table(lens, mode), budget=2400, models=M,
                                     bounds=f"table {name}"))
        out.append(Condition("C02/pc/strs/len=2,2,2", _body_strs((2, 2, 2), None), _replay_strs((2, 2, 2), None), budget=2400, models=M,
                             bounds="3 free strings of length 2"))
    from harness import common as hc
    out.append(hc.probe_condition("C02/probe/pc_n/narrow-integer-dtypes", "pc_n on count vectors stored as uint8 / int8 / int16 / uint16 / int32 arrays and Series whose "
                                  "pair-count sum exceeds the dtype: exact ratio", _probe_dtypes))
    return out
