"""C13 - grouped, conditional and entropy statistics are compositions of pc and pcDelta.

Real code: stats.pc_conditional, stats.pc_grouped_cross, distance.pcDelta_grouped, distance.pcDelta_grouped_cross,
entropy.renyi2_entropy, entropy.stdrenyi2_entropy (on top of the real pc / pc_joint / pcDelta / stdpc)."""
from vlib.rt import Condition
from harness import common as hc

PROPERTY = "C13"
BOUNDS = ("tables of 3-4 rows; grouping key per row SYMBOLIC (so every partition into <= 3 groups, singleton groups included, unsorted); one or "
          "two feature columns of symbolic labels (small integers / one-letter strings); symbolic positive group weights; symbolic base; "
          "pcDelta with a 3-edge bin vector and the bins=0 form")
OUTSIDE = ["more than 4 rows", "pandas groupby beyond the modelled subset (single key column or a list of key columns, groups in ascending key "
           "order, grouping columns excluded from apply)", "log is uninterpreted", "group_weights of a length other than the number of "
           "surviving groups"]
ASSUMPTIONS = ["pandas groupby / apply / filter contract (models/pd_model.py, pandas 3.0 semantics)", "NumPy/SciPy subset models",
               "pc / pcDelta themselves are the real functions (their exactness is C02 / C05)", "reals for floats", "CrossHair + plugin + z3"]
M = ("rf", "np", "sp", "pd", "misc")


def _realize(x):
    from crosshair.core import deep_realize
    try:
        return repr(deep_realize(x))
    except Exception:  # noqa
        return "<unrealisable>"


ROW_LABELS = {"unique": lambda n: [100 + r for r in range(n)], "repeated": lambda n: [100 + (r % 2) for r in range(n)]}   # 'repeated': two batches glued together


def _table(sym, nrows, nkeys=3, nfeat=1, feat_vals=2, fixed_keys=None, free2=None, labels="unique"):
    from models import pd_model
    keys = []
    for r in range(nrows):
        if fixed_keys is not None:
            k = sym.sym_int(f"g{r}", fixed_keys[r], fixed_keys[r])
            keys.append(fixed_keys[r])
            continue
        k = sym.sym_int(f"g{r}", 0, nkeys - 1)
        for cand in range(nkeys):          # decide the key (forks): groups are concrete per path
            if k == cand:
                keys.append(cand)
                break
    feats = [[sym.sym_int(f"f{c}_{r}", 0, (feat_vals - 1) if (c == 0 or free2 is None or r in free2) else 0) for r in range(nrows)]
             for c in range(nfeat)]
    cols = {"grp": [("k%d" % k) for k in keys]}
    for c in range(nfeat):
        cols[f"x{c}"] = feats[c]
    return pd_model.DataFrame(cols, index=ROW_LABELS[labels](nrows)), keys, feats


def _groups(keys):
    out = {}
    for r, k in enumerate(keys):
        out.setdefault(k, []).append(r)
    return [(k, out[k]) for k in sorted(out)]


def _pc_rows_term(so, feats, rows, rows2=None):
    """coincidence fraction among the given rows (all feature columns must agree), as a term"""
    def same(a, b):
        return so.b_and(*[so.eq(f[a], f[b]) for f in feats])
    if rows2 is None:
        n = len(rows)
        return so.count_true([same(a, b) for a in rows for b in rows if a != b]), n * (n - 1)
    return so.count_true([same(a, b) for a in rows for b in rows2]), len(rows) * len(rows2)


def _body_cond(nrows, nfeat, weighted, by_list, labels="unique"):
    def body():
        import math
        from pyrepseq import stats
        from vlib import sym, symops as so
        df, keys, feats = _table(sym, nrows, nfeat=nfeat, labels=labels)
        groups = [(k, rows) for k, rows in _groups(keys) if len(rows) > 1]
        on = "x0" if nfeat == 1 else ["x0", "x1"]
        kw = {}
        ws = None
        weights_kept = True
        if weighted:
            ws = [sym.sym_int(f"w{i}", 1, 3) for i in range(len(groups))]
            kw["group_weights"] = list(ws)
        if weighted == "array-twice" and groups:
            # the weights as ONE NumPy array handed to two calls in a row: the second call sees the same weights (the caller's array is left alone)
            from models import np_model
            warr = np_model.array(list(ws))
            kw["group_weights"] = warr
            stats.pc_conditional(df, ["grp"] if by_list else "grp", on, **kw)
            if len(warr._d) != len(ws):
                return False, "the caller's group_weights array was resized"
            weights_kept = so.b_and(*[so.eq(a, b) for a, b in zip(warr._d, ws)])
        got = stats.pc_conditional(df, ["grp"] if by_list else "grp", on, **kw)
        if not groups:
            return (isinstance(got, float) and math.isnan(got)), f"no group with >= 2 members but result {got!r}"
        terms = [_pc_rows_term(so, feats, rows) for _, rows in groups]
        if ws is None:
            ws = [1] * len(groups)
        w2 = [so.mul(w, w) for w in ws]
        W = so.total(w2)
        # got == sum_g w_g^2 / W * num_g / den_g   <=>   got * W * lcm == sum ...; all den_g are concrete
        lcm = 1
        for _, d in terms:
            lcm = lcm * d // math.gcd(lcm, d)
        rhs = so.total([so.mul(w2[i], so.mul(terms[i][0], lcm // terms[i][1])) for i in range(len(groups))])
        ok = so.close(so.mul(so.mul(got, W), lcm), rhs, 1e-6)
        if weighted == "array-twice":
            ok = so.b_and(weights_kept, ok)
        return ok, (lambda: f"pc_conditional = {_realize(got)}")
    return body


def _concrete_table(inputs, nrows, nfeat, labels="unique"):
    import pandas as pd
    keys = [int(inputs[f"g{r}"]) for r in range(nrows)]
    cols = {"grp": ["k%d" % k for k in keys]}
    feats = []
    for c in range(nfeat):
        feats.append([int(inputs[f"f{c}_{r}"]) for r in range(nrows)])
        cols[f"x{c}"] = feats[-1]
    return pd.DataFrame(cols, index=ROW_LABELS[labels](nrows)), keys, feats


def _pc_rows(feats, rows, rows2=None):
    from fractions import Fraction
    same = lambda a, b: all(f[a] == f[b] for f in feats)
    if rows2 is None:
        return Fraction(sum(1 for a in rows for b in rows if a != b and same(a, b)), len(rows) * (len(rows) - 1))
    return Fraction(sum(1 for a in rows for b in rows2 if same(a, b)), len(rows) * len(rows2))


def _replay_cond(nrows, nfeat, weighted, by_list, labels="unique"):
    def replay(inputs):
        import math
        from fractions import Fraction
        from pyrepseq import stats
        df, keys, feats = _concrete_table(inputs, nrows, nfeat, labels)
        groups = [(k, rows) for k, rows in _groups(keys) if len(rows) > 1]
        on = "x0" if nfeat == 1 else ["x0", "x1"]
        kw = {}
        ws = [1] * len(groups)
        if weighted:
            ws = [int(inputs.get(f"w{i}", 1)) for i in range(len(groups))]
            kw["group_weights"] = list(ws)
        if weighted == "array-twice" and groups:
            import numpy as np
            for dt in (float, int):
                warr = np.array(ws, dtype=dt)
                stats.pc_conditional(df, ["grp"] if by_list else "grp", on, group_weights=warr)
                if warr.tolist() != [dt(w) for w in ws]:
                    return False, f"pc_conditional changed the caller's group_weights array from {ws} to {warr.tolist()}"
            kw["group_weights"] = np.array(ws, dtype=float)
            stats.pc_conditional(df, ["grp"] if by_list else "grp", on, **kw)
        got = stats.pc_conditional(df, ["grp"] if by_list else "grp", on, **kw)
        if not groups:
            return isinstance(got, float) and math.isnan(got), f"no multi-member group: {got!r}"
        W = sum(w * w for w in ws)
        want = sum(Fraction(w * w, W) * _pc_rows(feats, rows) for w, (_, rows) in zip(ws, groups))
        return abs(float(got) - float(want)) <= 1e-9, f"pc_conditional(keys={keys}, feats={feats}, weights={ws if weighted else None}) = {got!r}, expected {want}"
    return replay


def _body_cond_multikey(nrows):
    """two grouping columns, one of them numeric: groups are the distinct (k1, k2) combinations"""
    def body():
        import math
        from pyrepseq import stats
        from models import pd_model
        from vlib import sym, symops as so
        k1, k2, x = [], [], []
        for r in range(nrows):
            a = sym.sym_int(f"g{r}", 0, 1)
            b = sym.sym_int(f"h{r}", 0, 1)
            k1.append("p" if a == 0 else "q")
            k2.append(7 if b == 0 else 3)
            x.append(sym.sym_int(f"f0_{r}", 0, 1))
        df = pd_model.DataFrame({"g1": k1, "g2": k2, "x0": x}, index=[50 + r for r in range(nrows)])
        got = stats.pc_conditional(df, ["g1", "g2"], "x0")
        groups = {}
        for r in range(nrows):
            groups.setdefault((k1[r], k2[r]), []).append(r)
        big = [rows for rows in groups.values() if len(rows) > 1]
        if not big:
            return (isinstance(got, float) and math.isnan(got)), f"no multi-member group but {got!r}"
        terms = [_pc_rows_term(so, [x], rows) for rows in big]
        lcm = 1
        for _, d in terms:
            lcm = lcm * d // math.gcd(lcm, d)
        rhs = so.total([so.mul(t[0], lcm // t[1]) for t in terms])
        return so.close(so.mul(so.mul(got, len(big)), lcm), rhs, 1e-6), (lambda: f"pc_conditional(two keys) = {_realize(got)}")
    return body


def _replay_cond_multikey(nrows):
    def replay(inputs):
        import math
        import pandas as pd
        from pyrepseq import stats
        k1 = ["p" if int(inputs[f"g{r}"]) == 0 else "q" for r in range(nrows)]
        k2 = [7 if int(inputs[f"h{r}"]) == 0 else 3 for r in range(nrows)]
        x = [int(inputs[f"f0_{r}"]) for r in range(nrows)]
        df = pd.DataFrame({"g1": k1, "g2": k2, "x0": x}, index=[50 + r for r in range(nrows)])
        got = stats.pc_conditional(df, ["g1", "g2"], "x0")
        groups = {}
        for r in range(nrows):
            groups.setdefault((k1[r], k2[r]), []).append(r)
        big = [rows for rows in groups.values() if len(rows) > 1]
        if not big:
            return isinstance(got, float) and math.isnan(got), f"{got!r}"
        want = sum(float(_pc_rows([x], rows)) for rows in big) / len(big)
        return abs(float(got) - want) <= 1e-9, f"pc_conditional(keys={list(zip(k1, k2))}, x={x}) = {got!r}, expected {want}"
    return replay


def _body_cross(nrows, nfeat, fixed_keys=None):
    def body():
        import math
        from pyrepseq import stats
        from vlib import sym, symops as so
        df, keys, feats = _table(sym, nrows, nfeat=nfeat, fixed_keys=fixed_keys)
        groups = _groups(keys)
        if len(groups) < 2:
            return True              # squareform of an empty vector: outside the statement (needs two groups)
        on = "x0" if nfeat == 1 else ["x0", "x1"]
        got = stats.pc_grouped_cross(df, "grp", on)
        names = ["k%d" % k for k, _ in groups]
        if list(got._names) != names or list(got._index) != names:
            return False, f"labels {got._names} / {got._index}, expected {names}"
        conds = []
        for i, (_, ri) in enumerate(groups):
            for j, (_, rj) in enumerate(groups):
                cell = got._cols[names[j]][i]
                if i == j:
                    if not (isinstance(cell, float) and math.isnan(cell)):
                        return False, f"diagonal cell is {cell!r}, expected NaN"
                    continue
                num, den = _pc_rows_term(so, feats, ri, rj)
                conds.append(so.close(so.mul(cell, den), num, 1e-6))
        return so.b_and(*conds), (lambda: f"pc_grouped_cross = {_realize(got.to_numpy().tolist())}")
    return body


def _replay_cross(nrows, nfeat):
    def replay(inputs):
        import math
        from pyrepseq import stats
        df, keys, feats = _concrete_table(inputs, nrows, nfeat)
        groups = _groups(keys)
        if len(groups) < 2:
            return True, ""
        got = stats.pc_grouped_cross(df, "grp", "x0" if nfeat == 1 else ["x0", "x1"])
        names = ["k%d" % k for k, _ in groups]
        if list(got.index) != names or list(got.columns) != names:
            return False, f"labels {list(got.index)}"
        for i, (_, ri) in enumerate(groups):
            for j, (_, rj) in enumerate(groups):
                v = got.iloc[i, j]
                if i == j:
                    if not math.isnan(v):
                        return False, f"diagonal {v!r}"
                elif abs(v - float(_pc_rows(feats, ri, rj))) > 1e-9:
                    return False, f"pc_grouped_cross[{names[i]},{names[j]}] = {v!r}, expected {_pc_rows(feats, ri, rj)} (keys={keys}, feats={feats})"
        return True, ""
    return replay


# ---- pcDelta_grouped / pcDelta_grouped_cross: sequences are one-letter strings, metric = real Levenshtein (distances 0/1)
def _seq_table(sym, nrows):
    from models import pd_model
    keys = []
    for r in range(nrows):
        k = sym.sym_int(f"g{r}", 0, 1)
        keys.append(0 if k == 0 else 1)
    seqs = [sym.sym_str(f"s{r}", 1, lo=1) for r in range(nrows)]
    return pd_model.DataFrame({"grp": ["k%d" % k for k in keys], "seq": list(seqs)}, index=[100 + r for r in range(nrows)]), keys, seqs


def _hist01(so, seqs, rows, rows2=None):
    """[#pairs at distance 0, #pairs at distance >= 1 (i.e. 1 for one-letter strings)]"""
    pairs = [(a, b) for i, a in enumerate(rows) for b in rows[i + 1:]] if rows2 is None else [(a, b) for a in rows for b in rows2]
    zero = so.count_true([hc.str_eq_term(seqs[a], seqs[b]) for a, b in pairs])
    return zero, so.sub(len(pairs), zero), len(pairs)


def _body_delta(nrows, form):
    """form: grouped-bins | grouped-bins0 | cross-condensed-bins | cross-condensed-bins0 | cross-square-bins | cross-square-bins0"""
    def body():
        from pyrepseq import distance
        from models import np_model, pd_model
        from vlib import sym, symops as so
        df, keys, seqs = _seq_table(sym, nrows)
        groups = _groups(keys)
        bins0 = form.endswith("bins0")
        kw = dict(bins=0) if bins0 else dict(bins=[0, 1, 2], normalize=False)
        if form.startswith("grouped"):
            if any(len(rows) < 2 for _, rows in groups):
                return True          # pcDelta of a single element is undefined (empty histogram / 0 pairs): outside the statement
            got = distance.pcDelta_grouped(df, "grp", "seq", **kw)
            names = ["k%d" % k for k, _ in groups]
            if not isinstance(got, pd_model.DataFrame) and not isinstance(got, pd_model.Series):
                return False, f"result type {type(got).__name__}"
            rows_index = list(got._index)
            if rows_index != names:
                return False, f"one row per group expected, got index {rows_index}"
            conds = []
            for gi, (_, rows) in enumerate(groups):
                zero, one, n = _hist01(so, seqs, rows)
                if bins0:
                    val = got._values[gi] if isinstance(got, pd_model.Series) else (got._cols[got._names[0]][gi] if got._names else None)
                    if val is None:
                        return False, "empty result for bins=0"
                    conds.append(so.close(so.mul(val, n), zero, 1e-6))
                else:
                    if len(got._names) != 2:
                        return False, f"{len(got._names)} bin columns, expected 2"
                    conds.append(so.b_and(so.eq(got._cols[got._names[0]][gi], zero), so.eq(got._cols[got._names[1]][gi], one)))
            return so.b_and(*conds), (lambda: f"pcDelta_grouped -> {_realize(got.to_numpy().tolist()) if hasattr(got, 'to_numpy') else got}")
        if len(groups) < 2:
            return True
        condensed = "condensed" in form
        got = distance.pcDelta_grouped_cross(df, "grp", "seq", condensed=condensed, **kw)
        (_, r0), (_, r1) = groups
        zero, one, n = _hist01(so, seqs, r0, r1)
        if condensed:
            vals = got.to_numpy().tolist()
            if bins0:
                flat = vals[0] if isinstance(vals[0], list) else vals
                return so.close(so.mul(flat[0] if isinstance(flat, list) else flat, n), zero, 1e-6), "condensed bins=0"
            return so.b_and(len(vals) == 1 and len(vals[0]) == 2, so.eq(vals[0][0], zero), so.eq(vals[0][1], one)), (lambda: f"condensed {_realize(vals)}")
        # square form: off-diagonal = cross value, diagonal = within-group value
        names = ["k0", "k1"]
        if list(got._names) != names or list(got._index) != names:
            return False, f"labels {got._names}"
        if bins0:
            c01, c10 = got._cols["k1"][0], got._cols["k0"][1]
            conds = [so.close(so.mul(c01, n), zero, 1e-6), so.close(so.mul(c10, n), zero, 1e-6)]
            for gi, rows in enumerate((r0, r1)):
                if len(rows) >= 2:
                    z, _, m = _hist01(so, seqs, rows)
                    conds.append(so.close(so.mul(got._cols[names[gi]][gi], m), z, 1e-6))
            return so.b_and(*conds), "square bins=0"
        return False, "square form with a bin vector returned without error - shape to be specified"
    return body


def _replay_delta(nrows, form):
    def replay(inputs):
        import numpy as np
        import pandas as pd
        from pyrepseq import distance
        keys = [0 if int(inputs[f"g{r}"]) == 0 else 1 for r in range(nrows)]
        seqs = [inputs[f"s{r}"] for r in range(nrows)]
        df = pd.DataFrame({"grp": ["k%d" % k for k in keys], "seq": seqs}, index=[100 + r for r in range(nrows)])
        groups = _groups(keys)
        bins0 = form.endswith("bins0")
        kw = dict(bins=0) if bins0 else dict(bins=[0, 1, 2], normalize=False)

        def hist(rows, rows2=None):
            pairs = [(a, b) for i, a in enumerate(rows) for b in rows[i + 1:]] if rows2 is None else [(a, b) for a in rows for b in rows2]
            z = sum(1 for a, b in pairs if seqs[a] == seqs[b])
            return z, len(pairs) - z, len(pairs)
        call = f"{form}(keys={keys}, seqs={seqs!r})"
        if form.startswith("grouped"):
            if any(len(rows) < 2 for _, rows in groups):
                return True, ""
            got = distance.pcDelta_grouped(df, "grp", "seq", **kw)
            arr = np.asarray(got)
            if arr.shape[0] != len(groups) or arr.size == 0:
                return False, f"{call}: result of shape {arr.shape} (one row per group with the group's pcDelta expected)"
            for gi, (_, rows) in enumerate(groups):
                z, o, n = hist(rows)
                want = [z / n] if bins0 else [z, o]
                if not np.allclose(np.ravel(arr[gi]), want):
                    return False, f"{call}: group {gi} -> {np.ravel(arr[gi]).tolist()}, expected {want}"
            return True, ""
        if len(groups) < 2:
            return True, ""
        condensed = "condensed" in form
        got = distance.pcDelta_grouped_cross(df, "grp", "seq", condensed=condensed, **kw)
        z, o, n = hist(groups[0][1], groups[1][1])
        arr = np.asarray(got, dtype=float)
        if condensed:
            want = [z / n] if bins0 else [z, o]
            return bool(np.allclose(np.ravel(arr), want)), f"{call}: {np.ravel(arr).tolist()} expected {want}"
        if bins0:
            ok = np.isclose(arr[0, 1], z / n) and np.isclose(arr[1, 0], z / n)
            for gi, (_, rows) in enumerate(groups):
                if len(rows) >= 2:
                    zz, _, m = hist(rows)
                    ok = ok and np.isclose(arr[gi, gi], zz / m)
            return bool(ok), f"{call}: {arr.tolist()}"
        return False, f"{call}: returned {arr.tolist()}"
    return replay


# ---- entropies (wiring as term equalities; log uninterpreted)
def _body_entropy(which, variant):
    def body():
        from pyrepseq import entropy, stats
        from models import np_model
        from vlib import sym, symops as so
        if variant == "conditional":
            df, keys, feats = _table(sym, 4, nkeys=2, nfeat=2, free2=())
        elif variant == "conditional_joint":
            df, keys, feats = _table(sym, 4, nkeys=2, nfeat=2, fixed_keys=[0, 0, 1, 1], free2=(0, 1, 2, 3))
        else:
            df, keys, feats = _table(sym, 4, nkeys=2, nfeat=2, fixed_keys=[0, 0, 1, 1], free2=(1, 2) if variant == "joint" else ())
        base = sym.sym_real("base", lo=0)
        # any base a logarithm can have: positive and different from 1 (a base below 1 flips the sign).  The one fact about the uninterpreted log
        # that is needed: log(base) > 0 for base > 1 and log(base) < 0 for base < 1
        lb = np_model.log(base)
        sym.assume(so.gt(base, 0))
        sym.assume(so.b_or(so.b_and(so.gt(base, 1), so.gt(lb, 0)), so.b_and(so.lt(base, 1), so.lt(lb, 0))))
        if which == "renyi2":
            if variant == "single":
                got, pcv = entropy.renyi2_entropy(df, "x0", base=base), stats.pc(df["x0"])
            elif variant == "joint":
                got, pcv = entropy.renyi2_entropy(df, ["x0", "x1"], base=base), stats.pc_joint(df, ["x0", "x1"])
            elif variant == "conditional":
                got, pcv = entropy.renyi2_entropy(df, "x0", by="grp", base=base), stats.pc_conditional(df, "grp", "x0")
            elif variant == "conditional_joint":
                got, pcv = entropy.renyi2_entropy(df, ["x0", "x1"], by="grp", base=base), stats.pc_conditional(df, "grp", ["x0", "x1"])
            else:  # base None -> natural log
                got, pcv = entropy.renyi2_entropy(df, "x0", base=None), stats.pc(df["x0"])
                if not so.is_symbolic(pcv) and pcv == 0:
                    return (isinstance(got, float) and got == float("inf")), f"pc = 0 but entropy {got!r}"
                return so.close(got, so.mul(-1, np_model.log(pcv)), 1e-9), f"entropy {got!r}"
            if not so.is_symbolic(pcv) and pcv == 0:
                # -log(0) / log(base): infinite, with the sign of log(base) - the sign is decided by the real-stack replay (the real-number encoding has no signed infinity)
                import math
                return (isinstance(got, float) and math.isinf(got)), f"pc = 0 but entropy {got!r} (expected an infinity)"
            want = np_model._div(so.mul(-1, np_model.log(pcv)), np_model.log(base))
            return so.close(got, want, 1e-9), (lambda: f"renyi2_entropy = {_realize(got)}")
        if variant == "single":
            got = entropy.stdrenyi2_entropy(df, "x0", base=base)
            want = np_model._div(np_model._div(stats.stdpc(df["x0"]), stats.pc(df["x0"])), np_model.log(base))
        else:
            got = entropy.stdrenyi2_entropy(df, ["x0", "x1"], base=base)
            want = np_model._div(np_model._div(stats.stdpc_joint(df, ["x0", "x1"]), stats.pc_joint(df, ["x0", "x1"])), np_model.log(base))
        import math
        if isinstance(got, float) and math.isnan(got):
            return isinstance(want, float) and math.isnan(want), "nan"
        return so.close(got, want, 1e-9), (lambda: f"stdrenyi2_entropy = {_realize(got)}")
    return body


def _replay_entropy(which, variant):
    def replay(inputs):
        import math
        import numpy as np
        from fractions import Fraction
        from pyrepseq import entropy, stats
        df, keys, feats = _concrete_table(inputs, 4, 2)
        b = inputs.get("base", 2)
        base = float(Fraction(b["frac"][0], b["frac"][1])) if isinstance(b, dict) else float(b)
        with np.errstate(all="ignore"):
            if which == "renyi2":
                if variant == "single":
                    got, want = entropy.renyi2_entropy(df, "x0", base=base), -np.log(stats.pc(df["x0"])) / np.log(base)
                elif variant == "joint":
                    got, want = entropy.renyi2_entropy(df, ["x0", "x1"], base=base), -np.log(stats.pc_joint(df, ["x0", "x1"])) / np.log(base)
                elif variant == "conditional":
                    got, want = entropy.renyi2_entropy(df, "x0", by="grp", base=base), -np.log(stats.pc_conditional(df, "grp", "x0")) / np.log(base)
                elif variant == "conditional_joint":
                    # independent of pc_conditional: weighted mean of the per-group joint coincidence fractions
                    groups = [rows for _, rows in _groups(keys) if len(rows) > 1]
                    pcj = sum(float(_pc_rows(feats, rows)) for rows in groups) / len(groups) if groups else float("nan")
                    got, want = entropy.renyi2_entropy(df, ["x0", "x1"], by="grp", base=base), -np.log(pcj) / np.log(base)
                else:
                    got, want = entropy.renyi2_entropy(df, "x0", base=None), -np.log(stats.pc(df["x0"]))
            elif variant == "single":
                got, want = entropy.stdrenyi2_entropy(df, "x0", base=base), stats.stdpc(df["x0"]) / (stats.pc(df["x0"]) * np.log(base))
            else:
                got, want = entropy.stdrenyi2_entropy(df, ["x0", "x1"], base=base), stats.stdpc_joint(df, ["x0", "x1"]) / (stats.pc_joint(df, ["x0", "x1"]) * np.log(base))
        if math.isinf(got) or math.isinf(want):
            same = got == want                        # an infinity is matched only by the same infinity
        else:
            same = (math.isnan(got) and math.isnan(want)) or got == want or abs(got - want) <= 1e-9 * max(1.0, abs(want))
        return bool(same), f"{which}/{variant}: {got!r} expected {want!r}"
    return replay


def conditions(tier):
    out = []
    T = tier == "thorough"
    for nrows, nfeat, weighted, by_list in [(3, 1, False, False), (4, 1, False, False), (4, 1, True, False), (3, 2, False, True), (3, 2, True, False)] \
            + ([(4, 2, False, True), (4, 2, True, False), (5, 1, True, False)] if T else []):
        out.append(Condition(f"C13/pc_conditional/rows={nrows}/feat={nfeat}/" + ("weighted" if weighted else "uniform") + ("/bylist" if by_list else ""),
                             _body_cond(nrows, nfeat, weighted, by_list), _replay_cond(nrows, nfeat, weighted, by_list),
                             budget=600 if not T else 3000, models=M, bounds=f"{nrows} rows, symbolic group keys (<= 3 groups), {nfeat} feature column(s)"))
    out.append(Condition("C13/pc_conditional/rows=4/feat=1/weights-as-one-array-used-twice", _body_cond(4, 1, "array-twice", False), _replay_cond(4, 1, "array-twice", False),
                         budget=600 if not T else 3000, models=M, bounds="4 rows, symbolic group keys; symbolic group weights held in one NumPy array passed to two calls in a row"))
    for nrows, weighted in [(3, False), (4, True)]:       # repeated row labels: rows are identified by position, never by label
        out.append(Condition(f"C13/pc_conditional/rows={nrows}/feat=1/" + ("weighted" if weighted else "uniform") + "/repeated-row-labels",
                             _body_cond(nrows, 1, weighted, False, "repeated"), _replay_cond(nrows, 1, weighted, False, "repeated"),
                             budget=600 if not T else 3000, models=M, bounds=f"{nrows} rows with row labels 100, 101, 100, ..., symbolic group keys, 1 feature column"))
    for nrows in (3,) + ((4,) if T else ()):
        out.append(Condition(f"C13/pc_conditional/two-keys/rows={nrows}", _body_cond_multikey(nrows), _replay_cond_multikey(nrows),
                             budget=600 if not T else 3000, models=M, bounds=f"{nrows} rows, two grouping columns (string and numeric keys)"))
    for nrows, nfeat in [(3, 1), (3, 2)] + ([(4, 1), (4, 2)] if T else []):
        out.append(Condition(f"C13/pc_grouped_cross/rows={nrows}/feat={nfeat}", _body_cross(nrows, nfeat), _replay_cross(nrows, nfeat),
                             budget=600 if not T else 3000, models=M, bounds=f"{nrows} rows, symbolic group keys, {nfeat} feature column(s)"))
    # four and five groups (keys fixed, unsorted, free features): the pair order of the condensed vector differs between the two triangles from 4 groups on
    for fk in [(2, 0, 3, 1, 0), (4, 1, 3, 0, 2)] + ([(5, 2, 0, 3, 1, 4)] if T else []):
        out.append(Condition(f"C13/pc_grouped_cross/groups={len(set(fk))}/keys={''.join(map(str, fk))}", _body_cross(len(fk), 1, fk), _replay_cross(len(fk), 1),
                             budget=600 if not T else 3000, models=M, bounds=f"{len(fk)} rows with the fixed unsorted group keys {fk}, free features"))
    for form in ("grouped-bins", "grouped-bins0", "cross-condensed-bins", "cross-condensed-bins0", "cross-square-bins", "cross-square-bins0"):
        for nrows in (3, 4):
            if nrows == 3 and form.startswith("grouped"):
                continue
            if nrows == 4 and form.startswith("cross") and not T:
                continue
            out.append(Condition(f"C13/pcDelta_{form}/rows={nrows}", _body_delta(nrows, form), _replay_delta(nrows, form), budget=600, models=M,
                                 bounds=f"{nrows} rows in two symbolic groups, one-letter sequences, real Levenshtein metric, {form}"))
    for which, variants in (("renyi2", ("single", "joint", "conditional", "conditional_joint", "natural")), ("stdrenyi2", ("single", "joint"))):
        for v in variants:
            out.append(Condition(f"C13/{which}_entropy/{v}", _body_entropy(which, v), _replay_entropy(which, v), budget=900, models=M,
                                 bounds="4 rows, 2 symbolic groups, 2 feature columns, symbolic base > 0, != 1"))
    return out
