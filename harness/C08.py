"""C08 - string metrics return true (weighted) edit distances in SciPy layout.

Real code: pyrepseq.metric.levenshtein.WeightedLevenshtein / Levenshtein (constructor branch on unit weights, _scorer lambda,
calc_cdist_matrix, calc_pdist_vector), pyrepseq.distance.pdist / cdist (explicit double loops)."""
from vlib.rt import Condition
from harness import common as hc

PROPERTY = "C08"
BOUNDS = ("WeightedLevenshtein with SYMBOLIC positive integer weights (1..3 quick, 1..5 thorough; asymmetric insertion/deletion included) on "
          "1-2 x 1-2 free Unicode strings of length <= 2 (3 thorough); Levenshtein(); condensed layout for m <= 5 strings; functional "
          "pdist/cdist with an arbitrary metric callable (fresh symbolic value per pair) and forwarded keyword arguments")
OUTSIDE = ["'no wrap-around for strings up to 400': the result dtype chosen inside rapidfuzz's C++ cdist cannot be encoded; what IS checked "
           "is that pyrepseq passes no narrowing dtype / score_cutoff to process.cdist (argument record)", "strings longer than 3",
           "weights > 5"]
ASSUMPTIONS = ["rapidfuzz Levenshtein.distance(weights=(ins, del, sub)) and process.cdist contracts", "scipy squareform contract",
               "NumPy subset model", "CrossHair + plugin + z3"]
M = ("rf", "np", "sp")


def wlev_term(a, b, ins, dele, sub):
    """minimum-cost edit script turning a into b, top-down over suffixes, no 'a match is free' shortcut"""
    import z3
    from crosshair.tracers import NoTracing
    from vlib import symops as so
    ca = [ord(a[i]) for i in range(len(a))]
    cb = [ord(b[i]) for i in range(len(b))]
    with NoTracing():
        za, zb = [so._z(x) for x in ca], [so._z(x) for x in cb]
        zi, zd, zs = so._z(ins), so._z(dele), so._z(sub)
        memo = {}

        def zif(c, x, y):
            return (x if c else y) if isinstance(c, bool) else z3.If(c, x, y)

        def zmin(x, y):
            return zif(x <= y, x, y)

        def rec(i, j):
            if i == len(za):
                return (len(zb) - j) * zi
            if j == len(zb):
                return (len(za) - i) * zd
            if (i, j) not in memo:
                memo[(i, j)] = zmin(zmin(rec(i + 1, j) + zd, rec(i, j + 1) + zi), rec(i + 1, j + 1) + zif(za[i] == zb[j], 0, zs))
            return memo[(i, j)]
        d = rec(0, 0)
        return so._wrap_num(z3.simplify(d)) if isinstance(d, z3.ExprRef) else d


def wlev(a, b, ins, dele, sub):
    prev = [j * ins for j in range(len(b) + 1)]
    for i, ca in enumerate(a, 1):
        cur = [i * dele]
        for j, cb in enumerate(b, 1):
            cur.append(min(prev[j] + dele, cur[j - 1] + ins, prev[j - 1] + (0 if ca == cb else sub)))
        prev = cur
    return prev[-1]


def homopolymer_wlev(n, m, same, ins, dele, sub):
    """closed form for 'A'*n -> ('A' if same else 'C')*m (checked against the DP in the conformance of this harness, see _selfcheck)"""
    if same:
        return (m - n) * ins if m >= n else (n - m) * dele
    k = min(n, m)
    return k * min(sub, ins + dele) + ((m - n) * ins if m >= n else (n - m) * dele)


PROBE_SHAPES = [(300, 400, False), (0, 200, False), (200, 0, False), (0, 300, False), (260, 0, False), (400, 150, True), (150, 400, True),
                (255, 256, False), (100, 100, False), (90, 0, False)]
PROBE_WEIGHTS = [(3, 2, 1), (2, 3, 1), (1, 1, 3), (3, 3, 3), (1, 3, 2), (2, 2, 1)]


def _selfcheck():
    for n, m, same in [(3, 5, False), (5, 3, False), (4, 2, True), (0, 3, False), (2, 2, False)]:
        for w in PROBE_WEIGHTS + [(1, 1, 1)]:
            assert homopolymer_wlev(n, m, same, *w) == wlev("A" * n, ("A" if same else "C") * m, *w), (n, m, same, w)


_selfcheck()


def long_probe(metric, w, unit):
    """Concrete probe on the REAL rapidfuzz: strings of 90-400 letters, length differences up to 300, the replayed weights and (for the
    weighted class) six fixed weight triples incl. insertion/deletion dearer than substitution - no value may wrap around or saturate."""
    for wt in ([w] if unit else [w] + PROBE_WEIGHTS):
        m = metric.Levenshtein() if unit else metric.WeightedLevenshtein(*wt)
        for n1, n2, same in PROBE_SHAPES:
            a, b = "A" * n1, ("A" if same else "C") * n2
            got = m.calc_cdist_matrix([a], [b, a])
            want = [homopolymer_wlev(n1, n2, same, *wt), 0]
            if [int(v) for v in got.tolist()[0]] != want or [float(v) for v in got.tolist()[0]] != [float(x) for x in want]:
                return False, (f"[long-string probe on the real library] weights(ins,del,sub)={wt}: cdist(['A'*{n1}], [{'A' if same else 'C'!r}*{n2}, 'A'*{n1}]) "
                               f"= {got.tolist()}, expected {[want]}")
            vec = m.calc_pdist_vector([a, b])
            if [int(v) for v in vec.tolist()] != want[:1]:
                return False, f"[long-string probe on the real library] weights={wt}: pdist of 'A'*{n1} and {'A' if same else 'C'!r}*{n2} = {vec.tolist()}, expected {want[:1]}"
    return True, ""


def _realize(x):
    from crosshair.core import deep_realize
    try:
        return repr(deep_realize(x))
    except Exception:  # noqa
        return "<unrealisable>"


def _body_w(ashape, bshape, wmax, unit):
    def body():
        from pyrepseq import metric
        from models import rf_model
        from models.np_model import NDArray
        from vlib import sym, symops as so
        A = [sym.sym_str(f"a{i}", n) for i, n in enumerate(ashape)]
        B = [sym.sym_str(f"b{i}", n) for i, n in enumerate(bshape)]
        if unit:
            ins = dele = sub = 1
            m = metric.Levenshtein()
        else:
            ins, dele, sub = (sym.sym_int(w, 1, wmax) for w in ("ins", "del", "sub"))
            m = metric.WeightedLevenshtein(ins, dele, sub)
        got = m.calc_cdist_matrix(A, B)
        if not isinstance(got, NDArray) or got.shape != (len(A), len(B)):
            return False, f"shape {getattr(got, 'shape', None)}"
        conds = [so.eq(got[i, j], wlev_term(A[i], B[j], ins, dele, sub)) for i in range(len(A)) for j in range(len(B))]
        for name, kw in rf_model.CALLS:          # nothing that could narrow the result may be passed to process.cdist
            if name == "cdist" and (kw["dtype"] is not None or kw["score_cutoff"] is not None or kw["score_multiplier"] != 1):
                return False, f"process.cdist called with narrowing options {kw}"
        return so.b_and(*conds), (lambda: f"cdist matrix {_realize(got.tolist())}")
    return body


def _replay_w(ashape, bshape, unit):
    def replay(inputs):
        from pyrepseq import metric
        A = [inputs[f"a{i}"] for i in range(len(ashape))]
        B = [inputs[f"b{i}"] for i in range(len(bshape))]
        if unit:
            w = (1, 1, 1)
            m = metric.Levenshtein()
        else:
            w = (int(inputs["ins"]), int(inputs["del"]), int(inputs["sub"]))
            m = metric.WeightedLevenshtein(*w)
        got = m.calc_cdist_matrix(A, B)
        want = [[wlev(a, b, *w) for b in B] for a in A]
        if got.tolist() != want:
            return False, f"weights(ins,del,sub)={w} cdist({A!r}, {B!r}) = {got.tolist()} expected {want}"
        # real-library probe for the argument-record part of the claim (no narrowing dtype / cutoff): long strings must not wrap around
        return long_probe(metric, w, unit)
    return replay


def _body_pvec(m_len, unit):
    def body():
        from pyrepseq import metric
        from vlib import sym, symops as so
        X = [sym.sym_str(f"x{i}", 1) for i in range(m_len)]
        if unit:
            ins = dele = sub = 1
            mt = metric.Levenshtein()
        else:
            ins, dele, sub = (sym.sym_int(w, 1, 3) for w in ("ins", "del", "sub"))
            mt = metric.WeightedLevenshtein(ins, dele, sub)
        vec = mt.calc_pdist_vector(X)
        n = m_len * (m_len - 1) // 2
        if vec.ndim != 1 or vec.shape[0] != max(n, 0) and not (m_len <= 1):
            return False, f"condensed vector has shape {vec.shape}, expected ({n},)"
        conds = []
        for i in range(m_len):
            for j in range(i + 1, m_len):
                k = m_len * i + j - ((i + 2) * (i + 1)) // 2
                conds.append(so.eq(vec[k], wlev_term(X[i], X[j], ins, dele, sub)))
        return so.b_and(*conds), (lambda: f"pdist vector {_realize(vec.tolist())}")
    return body


def _replay_pvec(m_len, unit):
    def replay(inputs):
        from scipy.spatial.distance import squareform
        from pyrepseq import metric
        X = [inputs[f"x{i}"] for i in range(m_len)]
        w = (1, 1, 1) if unit else (int(inputs["ins"]), int(inputs["del"]), int(inputs["sub"]))
        mt = metric.Levenshtein() if unit else metric.WeightedLevenshtein(*w)
        vec = list(mt.calc_pdist_vector(X))
        want = [wlev(X[i], X[j], *w) for i in range(m_len) for j in range(i + 1, m_len)]
        return [int(v) for v in vec] == want, f"calc_pdist_vector({X!r}, weights={w}) = {vec} expected {want}"
    return replay


# ---- functional helpers with an arbitrary metric callable
class _PairMetric:
    def __init__(self, strings_a, strings_b, sym, name):
        self.a, self.b = list(strings_a), list(strings_b)
        self.v = {(i, j): sym.sym_int(f"{name}_{i}_{j}", 0, 255) for i in range(len(self.a)) for j in range(len(self.b))}
        self.kwargs_seen = []

    def __call__(self, x, y, **kw):
        self.kwargs_seen.append(kw)
        return self.v[(self.a.index(x), self.b.index(y))]


def _body_fun(which, m_len, m2):
    def body():
        from pyrepseq import distance
        from vlib import sym, symops as so
        A = [chr(ord("a") + i) for i in range(m_len)]
        kw = {"scale": 3, "mode": "x"}
        if which == "pdist":
            f = _PairMetric(A, A, sym, "d")
            got = distance.pdist(A, metric=f, **kw)
            n = m_len * (m_len - 1) // 2
            if got.shape != (n,):
                return False, f"shape {got.shape}"
            conds = [so.eq(got[m_len * i + j - ((i + 2) * (i + 1)) // 2], f.v[(i, j)]) for i in range(m_len) for j in range(i + 1, m_len)]
            ncalls = n
        else:
            B = [chr(ord("p") + i) for i in range(m2)] if which == "cdist" else list(A)      # "cdist-same": equal collections
            f = _PairMetric(A, B, sym, "d")
            got = distance.cdist(A, B, metric=f, **kw)
            if got.shape != (m_len, m2):
                return False, f"shape {got.shape}"
            conds = [so.eq(got[i, j], f.v[(i, j)]) for i in range(m_len) for j in range(m2)]
            ncalls = m_len * m2
        if any(k != kw for k in f.kwargs_seen):       # (how often the metric is called is not part of the statement)
            return False, f"metric called with kwargs {f.kwargs_seen[:2]}"
        return so.b_and(*conds), (lambda: f"{which} -> {_realize(got.tolist())}")
    return body


def _replay_fun(which, m_len, m2):
    def replay(inputs):
        import numpy as np
        from pyrepseq import distance
        A = [chr(ord("a") + i) for i in range(m_len)]
        seen = []
        if which == "pdist":
            f = lambda x, y, **kw: (seen.append(kw), int(inputs[f"d_{A.index(x)}_{A.index(y)}"]))[1]
            got = distance.pdist(A, metric=f, scale=3, mode="x")
            want = [int(inputs[f"d_{i}_{j}"]) for i in range(m_len) for j in range(i + 1, m_len)]
            ok = [int(v) for v in got] == want
        else:
            B = [chr(ord("p") + i) for i in range(m2)] if which == "cdist" else list(A)
            f = lambda x, y, **kw: (seen.append(kw), int(inputs[f"d_{A.index(x)}_{B.index(y)}"]))[1]
            got = distance.cdist(A, B, metric=f, scale=3, mode="x")
            want = [[int(inputs[f"d_{i}_{j}"]) for j in range(m2)] for i in range(m_len)]
            ok = np.asarray(got).tolist() == want
        ok = ok and all(k == {"scale": 3, "mode": "x"} for k in seen)
        return ok, f"{which}: got {np.asarray(got).tolist()} expected {want}; kwargs {seen[:1]}"
    return replay


# ---- functional helpers with the DEFAULT metric (metric=None -> Levenshtein.distance) and forwarded keyword arguments
def _body_default(which, ashape, bshape, wmax):
    def body():
        from pyrepseq import distance
        from vlib import sym, symops as so
        A = [sym.sym_str(f"a{i}", n) for i, n in enumerate(ashape)]
        ins, dele, sub = (sym.sym_int(w, 1, wmax) for w in ("ins", "del", "sub"))
        if which == "pdist":
            m = len(A)
            got = distance.pdist(A, weights=(ins, dele, sub))
            if got.shape != (m * (m - 1) // 2,):
                return False, f"shape {got.shape}"
            conds = [so.eq(got[m * i + j - ((i + 2) * (i + 1)) // 2], wlev_term(A[i], A[j], ins, dele, sub)) for i in range(m) for j in range(i + 1, m)]
        else:
            B = [sym.sym_str(f"b{i}", n) for i, n in enumerate(bshape)]
            got = distance.cdist(A, B, weights=(ins, dele, sub))
            if got.shape != (len(A), len(B)):
                return False, f"shape {got.shape}"
            conds = [so.eq(got[i, j], wlev_term(A[i], B[j], ins, dele, sub)) for i in range(len(A)) for j in range(len(B))]
        return so.b_and(*conds), (lambda: f"{which}(default metric, weights) -> {_realize(got.tolist())}")
    return body


def _replay_default(which, ashape, bshape):
    def replay(inputs):
        import numpy as np
        from pyrepseq import distance
        A = [inputs[f"a{i}"] for i in range(len(ashape))]
        w = (int(inputs["ins"]), int(inputs["del"]), int(inputs["sub"]))
        if which == "pdist":
            got = [int(v) for v in distance.pdist(A, weights=w)]
            want = [wlev(A[i], A[j], *w) for i in range(len(A)) for j in range(i + 1, len(A))]
            call = f"pdist({A!r}, weights={w})"
        else:
            B = [inputs[f"b{i}"] for i in range(len(bshape))]
            got = np.asarray(distance.cdist(A, B, weights=w)).tolist()
            want = [[wlev(a, b, *w) for b in B] for a in A]
            call = f"cdist({A!r}, {B!r}, weights={w})"
        return got == want, f"default metric with forwarded keyword arguments: {call} = {got} expected {want}"
    return replay


def _sh(s):
    return ",".join(map(str, s))


def _probe_many_strings(weights):
    """condensed layout for MANY strings (a block-wise implementation may switch on above some size): 300 and 700 strings, every index checked"""
    def run():
        import random
        from pyrepseq import metric
        rnd = random.Random(7)
        m = metric.Levenshtein() if weights is None else metric.WeightedLevenshtein(*weights)
        w = weights or (1, 1, 1)
        for n in (300, 700):
            X = ["".join(rnd.choice("ACDE") for _ in range(rnd.randint(0, 4))) for _ in range(n)]
            vec = m.calc_pdist_vector(X)
            if len(vec) != n * (n - 1) // 2:
                return False, f"[many-strings probe] calc_pdist_vector of {n} strings has length {len(vec)}"
            cache = {}
            for i in range(n):
                for j in range(i + 1, n):
                    key = (X[i], X[j])
                    if key not in cache:
                        cache[key] = wlev(X[i], X[j], *w)
                    got = vec[n * i + j - (i + 2) * (i + 1) // 2]
                    if int(got) != cache[key]:
                        return False, (f"[many-strings probe] weights {w}: calc_pdist_vector of {n} strings, index m*i+j-(i+2)(i+1)/2 for i={i}, j={j} "
                                       f"holds {got!r}, distance({X[i]!r}, {X[j]!r}) = {cache[key]}")
        return True, ""
    return run


def conditions(tier):
    out = []
    T = tier == "thorough"
    wmax = 5 if T else 3
    shapes = [((1,), (1,)), ((2,), (1,)), ((1,), (2,)), ((2,), (2,)), ((0,), (2,)), ((2,), (0,)), ((2, 1), (1, 2)), ((1, 1), (2,)),
              ((1,), (1, 2)), ((2,), (1, 1, 0))]          # fewer anchors than comparisons and vice versa
    if T:
        shapes += [((3,), (2,)), ((2,), (3,)), ((3,), (3,)), ((2, 2), (2, 2))]
    for a, b in shapes:
        out.append(Condition(f"C08/weighted/cdist/A={_sh(a)}/B={_sh(b)}", _body_w(a, b, wmax, False), _replay_w(a, b, False),
                             budget=300 if not T else 2400, models=M, bounds=f"anchors {a}, comparisons {b}, weights symbolic 1..{wmax}"))
    for a, b in [((2,), (2,)), ((2, 1), (2,)), ((3,), (2,))]:
        out.append(Condition(f"C08/levenshtein/cdist/A={_sh(a)}/B={_sh(b)}", _body_w(a, b, 1, True), _replay_w(a, b, True), budget=300,
                             models=M, bounds=f"Levenshtein() on anchors {a}, comparisons {b}"))
    for m_len in (2, 3, 4, 5):
        out.append(Condition(f"C08/pdist_vector/levenshtein/m={m_len}", _body_pvec(m_len, True), _replay_pvec(m_len, True), budget=300,
                             models=M, bounds=f"condensed layout for {m_len} one-letter strings"))
    out.append(Condition("C08/pdist_vector/weighted/m=3", _body_pvec(3, False), _replay_pvec(3, False), budget=300, models=M,
                         bounds="condensed layout, symbolic weights"))
    for m_len in (0, 1, 2, 3, 4, 5):
        out.append(Condition(f"C08/pdist/fun/m={m_len}", _body_fun("pdist", m_len, 0), _replay_fun("pdist", m_len, 0), budget=120, models=M,
                             bounds=f"functional pdist on {m_len} strings, arbitrary metric values"))
    for m in (2, 3):
        out.append(Condition(f"C08/cdist/fun/same/{m}", _body_fun("cdist-same", m, m), _replay_fun("cdist-same", m, m), budget=120, models=M,
                             bounds=f"functional cdist of a collection of {m} strings with itself, arbitrary (asymmetric) metric values"))
    for m1, m2 in [(1, 1), (2, 3), (3, 2), (0, 2)]:
        out.append(Condition(f"C08/cdist/fun/{m1}x{m2}", _body_fun("cdist", m1, m2), _replay_fun("cdist", m1, m2), budget=120, models=M,
                             bounds=f"functional cdist {m1} x {m2}"))
    from harness import common as hc
    for which, a, b in [("pdist", (2, 1), ()), ("pdist", (1, 2, 1), ()), ("cdist", (2,), (1,)), ("cdist", (1, 2), (2, 0))] + \
            ([("pdist", (2, 2, 1), ()), ("cdist", (2, 2), (3,))] if T else []):
        out.append(Condition(f"C08/{which}/default-metric+weights/A={_sh(a)}" + (f"/B={_sh(b)}" if which == "cdist" else ""),
                             _body_default(which, a, b, wmax), _replay_default(which, a, b), budget=300 if not T else 1200, models=M,
                             bounds=f"functional {which} with metric left at its default and weights=(ins,del,sub) symbolic 1..{wmax} forwarded as a keyword argument; strings {a}" + (f" x {b}" if which == "cdist" else "")))
    out.append(hc.probe_condition("C08/probe/pdist_vector/300-and-700-strings/levenshtein", "Levenshtein().calc_pdist_vector on 300 and 700 strings: every condensed index against the DP oracle",
                                  _probe_many_strings(None)))
    out.append(hc.probe_condition("C08/probe/pdist_vector/300-and-700-strings/weighted", "WeightedLevenshtein(1,2,3).calc_pdist_vector on 300 and 700 strings: every condensed index",
                                  _probe_many_strings((1, 2, 3))))
    return out
