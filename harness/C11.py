"""C11 - kdtree results are independent of worker count, chunking and compression; max_returns semantics.

Real code: kdtree, _kdtree_leven, _to_triplets (serial map and Pool.map branch, chunksize arithmetic), _cal_levenshtein,
_cal_custom_dist, _histogram_encode (compression), _flatten_array, _to_len_bucket."""
from vlib.rt import Condition
from harness import common as hc

PROPERTY = "C11"
BOUNDS = ("lists of 1-4 amino-acid strings (lengths <= 2, letters within 2-3 letter sub-alphabets); n_cpu SYMBOLIC in 1..16 against a "
          "contract model of multiprocessing.Pool (fork-time globals, chunk execution order chosen by the solver, chunksize <= 0 "
          "semantics of CPython); compression concrete in {1,2,3,5,7,19,20,25} (all 1..25 thorough) with letters straddling the merged "
          "bins; max_returns in {1,2} for default / Hamming / custom mode; max_edits 1..2")
OUTSIDE = ["real process scheduling, pickling, fork (replaced by the Pool.map contract)", "longer inputs", "n_cpu > 16"]
ASSUMPTIONS = ["multiprocessing.Pool contract (models/mp_model.py, checked against CPython's pool.py in the pre-flight)",
               "KDTree / rapidfuzz / NumPy contract models", "reals for floats (int(len/n_cpu) is modelled as truncation of the exact quotient)",
               "CrossHair + plugin + z3"]
MODELS = ("rf", "np", "sp", "mp", "pd")


def _realize(x):
    from crosshair.core import deep_realize
    try:
        return repr(deep_realize(x))
    except Exception:  # noqa
        return "<unrealisable>"


def _dist_for(mode, seqs, cd):
    cache = {}

    def lev(q, r):
        key = ("l", min(q, r), max(q, r))
        if key not in cache:
            cache[key] = hc.lev_term(seqs[key[1]], seqs[key[2]])
        return cache[key]

    def ham(q, r):
        key = ("h", min(q, r), max(q, r))
        if key not in cache:
            cache[key] = hc.ham_term(seqs[key[1]], seqs[key[2]])
        return cache[key]
    return lev, ham


def _call_kwargs(mode, cd):
    if mode == "hamming":
        return {"custom_distance": "hamming"}
    if mode == "custom":
        return {"custom_distance": cd}
    return {}


# ------------------------------------------------------------------ (a)+(b): n_cpu / compression
def _body_cfg(shape, k, letters, mode, ncpu_sym, compression):
    def body():
        import pyrepseq
        from vlib import sym, symops as so
        seqs = [sym.sym_str(f"s{i}", n, among=letters) for i, n in enumerate(shape)]
        cd = hc.ArbitraryDistance(seqs) if mode == "custom" else None
        kw = _call_kwargs(mode, cd)
        if ncpu_sym:
            kw["n_cpu"] = sym.sym_int("n_cpu", 1, 16)
        if compression != 1:
            kw["compression"] = compression
        got = pyrepseq.kdtree(seqs, max_edits=k, **kw)
        lev, ham = _dist_for(mode, seqs, cd)
        if mode == "hamming":
            ok = hc.exact_triplets(got, len(seqs), len(seqs), ham, k, True)
        elif mode == "custom":
            seen = {}
            for t in got:
                q, r = int(t[0]), int(t[1])
                if (q, r) in seen or q == r:
                    return False, (lambda: f"repeated/self pair in {_realize(list(got))}")
                seen[(q, r)] = t[2]
            conds = []
            for q in range(len(seqs)):
                for r in range(len(seqs)):
                    if q != r:
                        inside = so.le(lev(q, r), k)
                        conds.append(so.b_and(inside, so.eq(seen[(q, r)], cd.value(q, r))) if (q, r) in seen else so.b_not(inside))
            ok = so.b_and(*conds)
        else:
            ok = hc.exact_triplets(got, len(seqs), len(seqs), lev, k, True)
        return ok, (lambda: f"kdtree({kw}) returned {_realize(list(got))}")
    return body


def _frac(v):
    from fractions import Fraction
    return Fraction(v["frac"][0], v["frac"][1]) if isinstance(v, dict) else Fraction(v)


def _concrete_cd(inputs, seqs):
    table = {}
    n = len(seqs)
    for i in range(n):
        for j in range(i + 1, n):
            v = float(_frac(inputs[f"cd_{i}_{j}"]))
            table[(seqs[i], seqs[j])] = table[(seqs[j], seqs[i])] = v
    return table


class TableDistance:
    """picklable concrete custom distance (the real Pool pickles its tasks' globals via fork only, but be safe)"""

    def __init__(self, table):
        self.table = table

    def __call__(self, a, b):
        return 0.0 if a == b else self.table[(a, b)]


def _replay_cfg(shape, k, mode, ncpu_sym, compression):
    def replay(inputs):
        import pyrepseq
        seqs = [inputs[f"s{i}"] for i in range(len(shape))]
        kw = {}
        cd = None
        if mode == "hamming":
            kw["custom_distance"] = "hamming"
        elif mode == "custom":
            cd = TableDistance(_concrete_cd(inputs, seqs))
            kw["custom_distance"] = cd
        if ncpu_sym:
            kw["n_cpu"] = int(inputs["n_cpu"])
        if compression != 1:
            kw["compression"] = compression
        got = pyrepseq.kdtree(list(seqs), max_edits=k, **kw)
        if mode == "hamming":
            want = hc.want_triplets(seqs, seqs, hc.ham, k, True)
        elif mode == "custom":
            want = {(q, r, cd(a, b)) for q, a in enumerate(seqs) for r, b in enumerate(seqs) if q != r and hc.lev(a, b) <= k}
        else:
            want = hc.want_triplets(seqs, seqs, hc.lev, k, True)
        g = [(int(q), int(r), float(d)) for q, r, d in got]
        ok = len(g) == len(set(g)) and set(g) == {(q, r, float(d)) for q, r, d in want}
        return ok, f"kdtree({seqs!r}, max_edits={k}, {kw}): got {sorted(g)} want {sorted(want)}"
    return replay


# ------------------------------------------------------------------ (c): max_returns
def _body_maxret(shape, k, letters, mode, m):
    def body():
        import pyrepseq
        from vlib import sym, symops as so
        seqs = [sym.sym_str(f"s{i}", n, among=letters) for i, n in enumerate(shape)]
        cd = hc.ArbitraryDistance(seqs) if mode == "custom" else None
        kw = _call_kwargs(mode, cd)
        got = pyrepseq.kdtree(seqs, max_edits=k, max_returns=m, **kw)
        lev, ham = _dist_for(mode, seqs, cd)
        n = len(seqs)
        per_q = {q: {} for q in range(n)}
        for t in got:
            q, r = int(t[0]), int(t[1])
            if not (0 <= q < n and 0 <= r < n) or q == r or r in per_q[q]:
                return False, (lambda: f"bad/repeated pair in {_realize(list(got))}")
            per_q[q][r] = t[2]
        conds = []
        for q in range(n):
            def value(r):
                return ham(q, r) if mode == "hamming" else (cd.value(q, r) if mode == "custom" else lev(q, r))

            def is_nb(r):
                if mode == "hamming":
                    h = ham(q, r)
                    return False if h is None else so.le(h, k)
                return so.le(lev(q, r), k)
            others = [r for r in range(n) if r != q]
            nb_count = so.count_true([is_nb(r) for r in others])
            conds.append(so.eq(len(per_q[q]), so.smin(m, nb_count)))
            for r, d in per_q[q].items():
                v = value(r)
                if v is None:
                    return False, (lambda: f"unequal-length pair reported in {_realize(list(got))}")
                conds.append(so.b_and(is_nb(r), so.eq(d, v)))
            for r in others:
                if r in per_q[q]:
                    continue
                v = value(r)
                if v is None:
                    continue
                for r2, d2 in per_q[q].items():       # an omitted true neighbour is never strictly closer than a reported one
                    conds.append(so.b_implies(is_nb(r), so.ge(v, d2)))
        return so.b_and(*conds), (lambda: f"kdtree(max_returns={m}, {mode}) returned {_realize(list(got))}")
    return body


def _replay_maxret(shape, k, mode, m):
    def replay(inputs):
        import pyrepseq
        seqs = [inputs[f"s{i}"] for i in range(len(shape))]
        kw = {}
        cd = None
        if mode == "hamming":
            kw["custom_distance"] = "hamming"
        elif mode == "custom":
            cd = TableDistance(_concrete_cd(inputs, seqs))
            kw["custom_distance"] = cd
        got = pyrepseq.kdtree(list(seqs), max_edits=k, max_returns=m, **kw)
        n = len(seqs)

        def value(q, r):
            if mode == "hamming":
                return hc.ham(seqs[q], seqs[r])
            if mode == "custom":
                return cd(seqs[q], seqs[r])
            return hc.lev(seqs[q], seqs[r])

        def is_nb(q, r):
            if mode == "hamming":
                h = hc.ham(seqs[q], seqs[r])
                return h is not None and h <= k
            return hc.lev(seqs[q], seqs[r]) <= k
        call = f"kdtree({seqs!r}, max_edits={k}, max_returns={m}, {kw})"
        per_q = {q: {} for q in range(n)}
        for q, r, d in got:
            q, r = int(q), int(r)
            if q == r or r in per_q[q]:
                return False, f"{call}: bad/repeated pair in {got}"
            per_q[q][r] = float(d)
        for q in range(n):
            nbs = [r for r in range(n) if r != q and is_nb(q, r)]
            if len(per_q[q]) != min(m, len(nbs)):
                return False, f"{call}: query {q} reports {len(per_q[q])} neighbours, expected {min(m, len(nbs))}: {got}"
            for r, d in per_q[q].items():
                if r not in nbs or abs(d - value(q, r)) > 1e-9:
                    return False, f"{call}: ({q},{r},{d}) is not a true neighbour / wrong distance: {got}"
            for r in nbs:
                if r not in per_q[q] and any(value(q, r) < d2 - 1e-12 for d2 in per_q[q].values()):
                    return False, f"{call}: omitted neighbour {r} of {q} is strictly closer than a reported one: {got}"
        return True, ""
    return replay


AM = hc.AMINO


def _letters_for(c):
    """three letters: first letter of bin 0, last letter of bin 0, first letter of the next bin (or the last letter)"""
    a = AM[0]
    b = AM[min(c - 1, 19)]
    nxt = AM[c] if c < 20 else AM[19]
    out = []
    for ch in (a, b, nxt):
        if ch not in out:
            out.append(ch)
    if len(out) < 2:
        out.append(AM[19])
    return "".join(out)


def _sh(s):
    return ",".join(map(str, s))


def _mk_cfg(shape, k, letters, mode="default", ncpu=True, compression=1, budget=240):
    cid = f"C11/cfg/{mode}/len={_sh(shape)}/k={k}/{letters}/" + ("ncpu=sym" if ncpu else "ncpu=1") + f"/comp={compression}"
    return Condition(cid, _body_cfg(shape, k, letters, mode, ncpu, compression), _replay_cfg(shape, k, mode, ncpu, compression),
                     budget=budget, models=MODELS,
                     bounds=f"kdtree {mode} mode, lengths {shape}, letters {letters}, max_edits={k}, "
                            + ("n_cpu symbolic 1..16" if ncpu else "n_cpu=1") + f", compression={compression}")


def _mk_mr(shape, k, letters, mode, m, budget=240):
    cid = f"C11/maxret/{mode}/len={_sh(shape)}/k={k}/{letters}/m={m}"
    return Condition(cid, _body_maxret(shape, k, letters, mode, m), _replay_maxret(shape, k, mode, m), budget=budget, models=MODELS,
                     bounds=f"kdtree {mode} mode with max_returns={m}, lengths {shape}, letters {letters}, max_edits={k}")


_LONG = {}


def _probe_long(compression, mode):
    def run():
        import pyrepseq
        seqs = ["A" * 255, "A" * 256, "AC" * 128, "AC" * 127 + "AA", "A" * 254 + "C", "L" * 150 + "A" * 150, "L" * 150 + "A" * 149 + "V", "CASSLGQYF"]
        ham = mode == "hamming"
        if mode not in _LONG:
            _LONG[mode] = hc.want_triplets(seqs, seqs, hc.ham if ham else hc.lev, 1, True)
        kw = dict(custom_distance="hamming") if ham else {}
        got = pyrepseq.kdtree(list(seqs), max_edits=1, compression=compression, **kw)
        ok, detail = hc.compare_triplets(got, _LONG[mode])
        return ok, (f"[long-sequence probe] kdtree(max_edits=1, compression={compression}, {kw}) on sequences of lengths {[len(x) for x in seqs]} "
                    f"(merged composition bins hold 255 / 256 residues): {detail}")
    return run


def _probe_pool(n_cpu, compression, **kw):
    def run():
        import pyrepseq
        seqs, planted = hc.scale_case(6000, plant=(0, 255, 256, 4999, -1))
        got = pyrepseq.kdtree(list(seqs), max_edits=1, n_cpu=n_cpu, compression=compression, **kw)
        ok, detail = hc.compare_triplets(got, hc.scale_self_expected(planted))
        return ok, f"[scale probe] kdtree(n_cpu={n_cpu}, compression={compression}, {kw}) with the REAL multiprocessing.Pool on {len(seqs)} sequences: {detail}"
    return run


def _probe_compression_history():
    """real stack: results must not depend on which compression values earlier calls in the same process used (several compressions give
    the same number of composition bins with a different residue-to-bin map: 7/8/9 -> 3 bins, 10..19 -> 2, 5/6 -> 4)"""
    import pyrepseq
    first = ["CASSIIIIF", "CASSLLLLF", "CAWYVF", "CDEGHKF"]
    second = ["CASSIIIIF", "CASSIIIKF", "CASSLLLLF", "CASSLLLMF", "CAWYVF", "CAWYVE", "CDEGHKF", "CDEGHKW", "CANQPRST", "CANQPRSM"]
    want = hc.want_triplets(second, second, hc.lev, 1, True)
    for c1, c2 in [(7, 9), (9, 7), (8, 7), (10, 19), (19, 11), (5, 6), (6, 5), (4, 3), (1, 20), (20, 25)]:
        for n_cpu in (1, 2):
            pyrepseq.kdtree(list(first), max_edits=1, compression=c1, n_cpu=n_cpu)
            got = pyrepseq.kdtree(list(second), max_edits=1, compression=c2, n_cpu=n_cpu)
            ok, detail = hc.compare_triplets(got, want)
            if not ok:
                return False, (f"[call-history probe] kdtree({first}, compression={c1}, n_cpu={n_cpu}) followed by kdtree({second}, max_edits=1, compression={c2}, n_cpu={n_cpu}): {detail}")
    return True, "call-history probe ok"


def conditions(tier):
    out = []
    for shape in [(1,), (1, 1), (2, 1), (1, 1, 1), (2, 1, 1)]:
        out.append(_mk_cfg(shape, 1, "AY"))
    out.append(_mk_cfg((2, 2), 2, "AY"))
    out.append(_mk_cfg((1, 1, 1, 1), 1, "AY"))
    out.append(_mk_cfg((1, 1), 1, "AY", mode="hamming"))
    out.append(_mk_cfg((1, 2, 1), 1, "AY", mode="hamming"))
    out.append(_mk_cfg((2, 1, 2), 1, "AY", mode="hamming", budget=400))
    out.append(_mk_cfg((1, 1), 1, "AY", mode="custom"))
    out.append(_mk_cfg((1, 1, 1), 1, "AY", mode="custom"))
    comps = [2, 3, 5, 7, 19, 20, 25] if tier == "quick" else list(range(2, 26))
    for c in comps:
        L = _letters_for(c)
        out.append(_mk_cfg((2, 1), 1, L, ncpu=False, compression=c))
        out.append(_mk_cfg((2, 2), 2, L, ncpu=False, compression=c))
    # composition vectors exactly on the ball boundary (three substitutions between the same two bins): the radius must not round below sqrt(2)*k
    out.append(_mk_cfg((3, 3), 3, "AY", ncpu=False, budget=400))
    out.append(_mk_cfg((3, 3), 3, "AY", mode="hamming", ncpu=False, compression=2, budget=400))
    out.append(_mk_cfg((2, 1), 1, "AC", ncpu=True, compression=2))
    out.append(_mk_cfg((2, 2), 1, "AY", mode="hamming", ncpu=False, compression=20))
    out.append(_mk_cfg((1, 1, 1), 1, "ACD", mode="custom", ncpu=False, compression=2))
    for mode in ("default", "hamming", "custom"):
        for m in (1, 2):
            out.append(_mk_mr((1, 1, 1), 1, "AY", mode, m))
            out.append(_mk_mr((2, 1, 2), 1 if mode == "hamming" else 2, "AY", mode, m))
        out.append(_mk_mr((1, 1, 1, 1), 1, "AY", mode, 1))
    out.append(_mk_mr((2, 2, 2), 2, "AY", "default", 1, budget=400))
    # anagrams are inside the composition ball but not within one edit: candidates that must not take a max_returns slot
    out.append(_mk_mr((2, 2, 2), 1, "AY", "custom", 1, budget=600))
    out.append(_mk_mr((2, 2, 2), 1, "AY", "default", 1, budget=600))
    if tier == "thorough":
        out.append(_mk_cfg((2, 2, 1), 2, "ACY", budget=2400))
        out.append(_mk_cfg((2, 2, 2), 1, "AY", budget=2400))
        out.append(_mk_cfg((2, 2, 2), 1, "AY", mode="hamming", budget=2400))
        out.append(_mk_cfg((2, 1, 2, 1), 1, "AY", mode="hamming", budget=2400))
        out.append(_mk_cfg((2, 1, 1), 2, "AY", mode="custom", budget=2400))
        for mode in ("default", "hamming", "custom"):
            out.append(_mk_mr((2, 2, 2), 2, "AY", mode, 2, budget=2400))
            out.append(_mk_mr((2, 2, 1, 1), 2, "AY", mode, 1, budget=2400))
    for comp, mode in [(1, "default"), (10, "default"), (20, "default"), (25, "default"), (10, "hamming"), (20, "hamming")]:
        out.append(hc.probe_condition(f"C11/probe/kdtree/long-sequences/compression={comp}/{mode}",
                                      f"kdtree, max_edits=1, compression={comp}, {mode} mode, eight sequences of length 9-300 whose (merged) composition bins hold 254-256 "
                                      "residues: exact neighbour set against brute force", _probe_long(comp, mode)))
    for n_cpu, comp in [(3, 1), (4, 5), (16, 20)]:
        out.append(hc.probe_condition(f"C11/probe/kdtree/n_cpu={n_cpu}/compression={comp}/6000-sequences",
                                      f"kdtree with the real multiprocessing.Pool, n_cpu={n_cpu}, compression={comp}, 6 005 sequences with five planted pairs: exact triplet set",
                                      _probe_pool(n_cpu, comp)))
    out.append(hc.probe_condition("C11/probe/kdtree/compression-history", "two kdtree calls in one process with different compression values that share a bin count (7/9, 8/7, 10/19, 5/6, ...), "
                                  "the second on a superset of the first call's sequences, n_cpu 1 and 2, against the brute-force Levenshtein oracle", _probe_compression_history))
    return out
