"""Oracles and helpers shared by the search-property harnesses (C01, C03, C04, C07, C10, C11, C14)."""
import z3
from crosshair.tracers import NoTracing

from vlib import symops as so


# ---------------------------------------------------------------- symbolic-side oracle (terms)
def lev_term(a, b):
    """Levenshtein distance as ONE z3 term, top-down memoised recursion over suffixes
    (a different formulation from the bottom-up prefix DP of models/rf_model.py)."""
    ca = [ord(a[i]) for i in range(len(a))]
    cb = [ord(b[i]) for i in range(len(b))]
    with NoTracing():
        za, zb = [so._z(x) for x in ca], [so._z(x) for x in cb]
        memo = {}

        def zif(c, x, y):
            if isinstance(c, bool):
                return x if c else y
            return z3.If(c, x, y)

        def zmin(x, y):
            return zif(x <= y, x, y)

        def rec(i, j):
            if i == len(za):
                return len(zb) - j
            if j == len(zb):
                return len(za) - i
            if (i, j) not in memo:
                memo[(i, j)] = zif(za[i] == zb[j], rec(i + 1, j + 1),
                                   1 + zmin(zmin(rec(i + 1, j), rec(i, j + 1)), rec(i + 1, j + 1)))
            return memo[(i, j)]

        d = rec(0, 0)
        if isinstance(d, z3.ExprRef):
            d = z3.simplify(d)
            return d.as_long() if z3.is_int_value(d) else so._wrap_num(d)
        return d


def ham_term(a, b):
    """Hamming distance term for equal-length strings; None for unequal lengths."""
    if len(a) != len(b):
        return None
    return so.count_true([so.ne(ord(a[i]), ord(b[i])) for i in range(len(a))])


def exact_triplets(got, n_q, n_r, dist, k, self_mode, extra_ok=None):
    """Symbolic bool: `got` is exactly {(q, r, dist(q,r)) : dist <= k [, q != r]}, no repeats.

    got: iterable of (q, r, d) triplets as returned by the real code.  Positions are compared
    concretely (they are loop indices in the real code); if a position is symbolic, `int()` forks.
    dist(q, r) -> term or None (None = never a neighbour)."""
    seen = {}
    for t in got:
        if len(t) != 3:
            return False
        q, r, d = int(t[0]), int(t[1]), t[2]
        if (q, r) in seen:
            return False            # repeated pair
        seen[(q, r)] = d
    conds = []
    for (q, r) in seen:
        if not (0 <= q < n_q and 0 <= r < n_r):
            return False            # position out of range
        if self_mode and q == r:
            return False            # a position reported as its own neighbour
    for q in range(n_q):
        for r in range(n_r):
            if self_mode and q == r:
                continue
            d = dist(q, r)
            if d is None:
                if (q, r) in seen:
                    return False
                continue
            inside = so.le(d, k) if extra_ok is None else so.b_and(so.le(d, k), extra_ok(q, r))
            if (q, r) in seen:
                conds.append(so.b_and(inside, so.eq(seen[(q, r)], d)))
            else:
                conds.append(so.b_not(inside))
    return so.b_and(*conds)


# ---------------------------------------------------------------- concrete-side oracle (replay)
def lev(a, b):
    """Plain concrete Levenshtein (two-row DP) used on the real stack during replays."""
    prev = list(range(len(b) + 1))
    for i, ca in enumerate(a, 1):
        cur = [i]
        for j, cb in enumerate(b, 1):
            cur.append(min(prev[j] + 1, cur[j - 1] + 1, prev[j - 1] + (ca != cb)))
        prev = cur
    return prev[-1]


def ham(a, b):
    if len(a) != len(b):
        return None
    return sum(x != y for x, y in zip(a, b))


def want_triplets(qs, rs, dist, k, self_mode):
    out = set()
    for q, a in enumerate(qs):
        for r, b in enumerate(rs):
            if self_mode and q == r:
                continue
            d = dist(a, b)
            if d is not None and d <= k:
                out.add((q, r, d))
    return out


def canon(triplets):
    return [(int(q), int(r), float(d) if isinstance(d, float) else int(d)) for q, r, d in triplets]


def compare_triplets(got, want):
    """-> (ok, detail) on concrete values: no repeats and set equality."""
    got = canon(got)
    if len(got) != len(set(got)):
        return False, f"repeated triplets in {sorted(got)}"
    pairs = [(q, r) for q, r, _ in got]
    if len(pairs) != len(set(pairs)):
        return False, f"pair reported twice in {sorted(got)}"
    if set(got) != set(want):
        return False, f"got {sorted(got)} want {sorted(want)}"
    return True, ""


# ---------------------------------------------------------------- configuration bound: alphabet
AMINO = "ACDEFGHIKLMNPQRSTVWY"


def set_alphabet(letters):
    """Rebind pyrepseq's module constant `aminoacids` (and the default `alphabet` arguments bound to
    it at definition time) to `letters` for this analysis process.  A stated bound on pyrepseq's
    configuration: the edit-ball generators loop over the alphabet."""
    import sys
    import types
    n = 0
    for name, mod in list(sys.modules.items()):
        if mod is None or not (name == "pyrepseq" or name.startswith("pyrepseq.")):
            continue
        for k, v in list(vars(mod).items()):
            if isinstance(v, str) and v == AMINO:
                setattr(mod, k, letters)
                n += 1
            elif isinstance(v, (set, frozenset)) and v == set(AMINO):
                setattr(mod, k, type(v)(letters))
                n += 1
            elif isinstance(v, types.FunctionType) and v.__defaults__:
                if any(isinstance(d, str) and d == AMINO for d in v.__defaults__):
                    v.__defaults__ = tuple(letters if (isinstance(d, str) and d == AMINO) else d
                                           for d in v.__defaults__)
                    n += 1
    return n


# ---------------------------------------------------------------- arbitrary custom distance
def str_eq_term(a, b):
    """symbolic bool: strings a and b are equal (concrete lengths)."""
    if len(a) != len(b):
        return False
    return so.b_and(*[so.eq(ord(a[i]), ord(b[i])) for i in range(len(a))])


class ArbitraryDistance:
    """Every admissible custom distance at once: a symmetric function of the two strings' CONTENT with
    d(x, x) = 0 and otherwise one fresh non-negative symbolic real per unordered pair of known strings
    (consistency between equal strings, positivity on distinct strings and the triangle inequality are imposed
    as solver constraints - the function's documented precondition "must satisfy the 4 properties of distance").  Strings that are not among the
    known ones (should not happen: engines only compare inputs) get a fresh value as well."""

    def __init__(self, strings, name="cd", metric=False):
        from vlib import sym
        self.strings = list(strings)
        n = len(self.strings)
        self.D = [[0] * n for _ in range(n)]
        for i in range(n):
            for j in range(i + 1, n):
                v = sym.sym_real(f"{name}_{i}_{j}", lo=0)
                self.D[i][j] = self.D[j][i] = v
        eqs = [[str_eq_term(self.strings[i], self.strings[j]) if i != j else True for j in range(n)] for i in range(n)]
        for i in range(n):
            for j in range(i + 1, n):
                sym.assume(so.b_implies(eqs[i][j], so.eq(self.D[i][j], 0)))
                for l in range(n):
                    if l != i and l != j:
                        sym.assume(so.b_implies(eqs[i][j], so.eq(self.D[i][l], self.D[j][l])))
        # Domain = the property's quantifier: symmetric functions of the content with d(x, x) = 0.  `metric=True` adds the
        # stricter documented precondition (positive on distinct strings, triangle inequality).
        if metric:
            for i in range(n):
                for j in range(i + 1, n):
                    sym.assume(so.b_or(eqs[i][j], so.gt(self.D[i][j], 0)))
                    for l in range(n):
                        if l != i and l != j:
                            sym.assume(so.le(self.D[i][j], so.add(self.D[i][l], self.D[l][j])))
        self.calls = 0

    def _find(self, s):
        from crosshair.tracers import NoTracing
        with NoTracing():
            for i, t in enumerate(self.strings):
                if s is t:
                    return i
        for i, t in enumerate(self.strings):
            if len(s) == len(t) and s == t:          # forks on symbolic equality
                return i
        return None

    def __call__(self, a, b):
        self.calls += 1
        i, j = self._find(a), self._find(b)
        if i is None or j is None:
            raise AssertionError("custom distance called on a string that is not an input sequence")
        return self.D[i][j]

    def value(self, i, j):
        return self.D[i][j]


# ---------------------------------------------------------------- structural comparison / snapshots (C20, C19)
def same_value(a, b):
    """symbolic bool: a and b are structurally equal values (lists, tuples, model arrays / frames, terms, scalars, strings)"""
    from models import np_model, pd_model, sp_model
    import numpy as _np
    if a is b:
        return True
    if isinstance(a, (list, tuple)) and isinstance(b, (list, tuple)):
        if len(a) != len(b):
            return False
        return so.b_and(*[same_value(x, y) for x, y in zip(a, b)])
    if isinstance(a, np_model.NDArray) and isinstance(b, np_model.NDArray):
        if a.shape != b.shape:
            return False
        return so.b_and(*[same_value(x, y) for x, y in zip(a._d, b._d)])
    if isinstance(a, _np.ndarray) and isinstance(b, _np.ndarray):
        return bool(a.shape == b.shape and _np.array_equal(a, b, equal_nan=True))
    if isinstance(a, pd_model.DataFrame) and isinstance(b, pd_model.DataFrame):
        if a._names != b._names or len(a._index) != len(b._index):
            return False
        return so.b_and(same_value(a._index, b._index), *[same_value(a._cols[n], b._cols[n]) for n in a._names])
    if isinstance(a, pd_model.Series) and isinstance(b, pd_model.Series):
        return so.b_and(same_value(a._index, b._index), same_value(a._values, b._values))
    if isinstance(a, sp_model.Term) and isinstance(b, sp_model.Term):
        if a.name != b.name or set(a.kwargs) != set(b.kwargs):
            return False
        return so.b_and(same_value(list(a.args), list(b.args)), *[same_value(a.kwargs[k], b.kwargs[k]) for k in a.kwargs])
    if isinstance(a, dict) and isinstance(b, dict):
        if set(a) != set(b):
            return False
        return so.b_and(*[same_value(a[k], b[k]) for k in a])
    if a is None or b is None:
        return a is None and b is None
    if isinstance(a, float) and isinstance(b, float) and not so.is_symbolic(a) and not so.is_symbolic(b) and a != a and b != b:
        return True
    if _is_str(a) and _is_str(b):
        if len(a) != len(b):
            return False
        return str_eq_term(a, b)
    if _is_str(a) or _is_str(b):
        return False
    try:
        return so.eq(a, b)
    except TypeError:
        return a == b


def _is_str(x):
    return isinstance(x, str) or (hasattr(x, "__ch_pytype__") and x.__ch_pytype__() is str)


def shallow_snapshot(obj):
    """(container, [leaf objects]) for later identity comparison: the caller's containers must keep the same leaves"""
    from models import np_model, pd_model
    if isinstance(obj, list):
        return ("list", list(obj))
    if isinstance(obj, (set, frozenset)) or type(obj).__name__ in ("ShellMutableSet", "LinearSet"):
        return ("set", [x for x in obj])
    if isinstance(obj, dict):
        return ("dict", list(obj.items()))
    if isinstance(obj, np_model.NDArray):
        return ("nd", obj.shape, list(obj._d))
    if isinstance(obj, pd_model.DataFrame):
        return ("df", list(obj._names), list(obj._index), {n: list(obj._cols[n]) for n in obj._names})
    if isinstance(obj, pd_model.Series):
        return ("series", list(obj._index), list(obj._values), obj.name)
    return ("other", obj)


def unchanged(obj, snap):
    from models import np_model, pd_model
    kind = snap[0]
    same = lambda xs, ys: len(xs) == len(ys) and all(x is y for x, y in zip(xs, ys))
    if kind == "list":
        return isinstance(obj, list) and same(obj, snap[1])
    if kind == "set":
        now = [x for x in obj]
        return len(now) == len(snap[1]) and all(any(x is y for y in now) for x in snap[1])
    if kind == "dict":
        items = list(obj.items())
        return len(items) == len(snap[1]) and all(k1 == k2 and v1 is v2 for (k1, v1), (k2, v2) in zip(items, snap[1]))
    if kind == "nd":
        return obj.shape == snap[1] and same(obj._d, snap[2])
    if kind == "df":
        return obj._names == snap[1] and same(obj._index, snap[2]) and all(same(obj._cols[n], snap[3][n]) for n in snap[1])
    if kind == "series":
        return same(obj._index, snap[1]) and same(obj._values, snap[2]) and obj.name == snap[3]
    return obj is snap[1]


def mutable_defaults():
    """{qualified name: (function, deep copy of its mutable default values)} over all pyrepseq functions"""
    import copy
    import sys
    import types
    import numpy as _np
    out = {}
    for name, mod in list(sys.modules.items()):
        if mod is None or not (name == "pyrepseq" or name.startswith("pyrepseq.")):
            continue
        for k, v in list(vars(mod).items()):
            fns = [v] if isinstance(v, types.FunctionType) else \
                [f for f in vars(v).values() if isinstance(f, types.FunctionType)] if isinstance(v, type) and getattr(v, "__module__", "").startswith("pyrepseq") else []
            for f in fns:
                if not getattr(f, "__module__", "").startswith("pyrepseq"):
                    continue
                vals = list(f.__defaults__ or ()) + list((f.__kwdefaults__ or {}).values())
                muts = [d for d in vals if isinstance(d, (dict, list, set, _np.ndarray))]
                if muts:
                    out[f"{f.__module__}.{f.__qualname__}"] = (f, copy.deepcopy(muts), muts)
    return out


def defaults_intact(snapshot):
    import numpy as _np
    bad = []
    for name, (f, saved, live) in snapshot.items():
        for s_, l_ in zip(saved, live):
            if isinstance(s_, _np.ndarray):
                ok = isinstance(l_, _np.ndarray) and _np.array_equal(s_, l_)
            elif isinstance(s_, dict):
                ok = isinstance(l_, dict) and list(s_.keys()) == list(l_.keys()) and all(_plain_eq(s_[k], l_[k]) for k in s_)
            else:
                ok = _plain_eq(s_, l_)
            if not ok:
                bad.append(f"{name}: default {s_!r} is now {l_!r}")
    return bad


def _plain_eq(a, b):
    import numpy as _np
    if isinstance(a, _np.ndarray) or isinstance(b, _np.ndarray):
        return isinstance(a, _np.ndarray) and isinstance(b, _np.ndarray) and _np.array_equal(a, b)
    try:
        return bool(a == b)
    except Exception:  # noqa
        return False


# ---------------------------------------------------------------------------------------------------------------------------------
# Scale probes (engine="PROBE"): concrete runs of the REAL stack on tens of thousands of sequences.  Not a solver verdict - they cover what
# no symbolic bound reaches (positions beyond 255 / 65535, real process pools, large index structures).  The expected result is known by
# construction, not by brute force:
#   code(i) = the four base-20 digits of i, each letter written three times (length 12).  Every letter count of a code is a multiple of 3, so no
#   single edit turns one code into another, nor a planted variant (one code with its last letter substituted) into a different code: at
#   max_edits = 1 the only neighbour pairs are (code i, its planted variant), at distance 1, and equal strings at distance 0.
def scale_code(i):
    d = []
    for _ in range(4):
        d.append(AMINO[i % 20])
        i //= 20
    return "".join(c * 3 for c in d)


def scale_case(n=70000, plant=(0, 255, 256, 65535, 65536, -1)):
    """-> (sequences, {position of planted variant: position of its code})"""
    seqs = [scale_code(i) for i in range(n)]
    planted = {}
    for i in plant:
        i = i % n
        if i in planted.values():
            continue
        s = seqs[i]
        seqs.append(s[:-1] + ("A" if s[-1] != "A" else "C"))
        planted[len(seqs) - 1] = i
    return seqs, planted


def scale_self_expected(planted, dist=1):
    want = set()
    for j, i in planted.items():
        want |= {(i, j, dist), (j, i, dist)}
    return want


def probe_condition(cid, what, fn):
    """fn() -> (ok, detail), run once per check on the real stack"""
    from vlib.rt import Condition
    return Condition(cid, (lambda: True), (lambda inputs: fn()), budget=1, bounds=what, engine="PROBE")
