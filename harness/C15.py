"""C15 - clusters are the connected components / SciPy clusters of the stated distances.

Real code: pyrepseq.clustering.graph_clustering ('cc' branch), pyrepseq.distance.hierarchical_clustering."""
from vlib.rt import Condition

PROPERTY = "C15"
BOUNDS = ("graph_clustering('cc'): neighbour lists of 0-3 SYMBOLIC triplets over 2-4 nodes (both orientations or one, self-consistent or not, "
          "distance-0 edges, isolated nodes), given as list of tuples or 2-D array, node labels free strings / ints;  hierarchical_clustering: "
          "linkage / fcluster / the metric as uninterpreted term constructors, option dictionaries forwarded, default metric by input kind")
OUTSIDE = ["community detection methods (igraph C code) and DBSCAN", "the identity single-linkage <=> connected components (needs SciPy's "
           "linkage algorithm)", "igraph's component search itself (contract model: union-find)"]
ASSUMPTIONS = ["igraph.Graph(edges, n).connected_components(mode='weak').membership contract", "pandas / NumPy subset models",
               "scipy.cluster.hierarchy.linkage / fcluster are uninterpreted", "CrossHair + plugin + z3"]
M = ("rf", "np", "sp", "sp_terms", "pd", "misc")


def _realize(x):
    from crosshair.core import deep_realize
    try:
        return repr(deep_realize(x))
    except Exception:  # noqa
        return "<unrealisable>"


def _components(n, edges):
    """independent oracle: breadth-first search"""
    adj = {v: set() for v in range(n)}
    for a, b in edges:
        adj[a].add(b)
        adj[b].add(a)
    comp, seen = {}, set()
    for s in range(n):
        if s in seen:
            continue
        queue, members = [s], []
        seen.add(s)
        while queue:
            v = queue.pop()
            members.append(v)
            for w in adj[v]:
                if w not in seen:
                    seen.add(w)
                    queue.append(w)
        for v in members:
            comp[v] = s
    return comp


def _series_index(label_kind, n):
    if "perm" in label_kind:
        return list(range(n - 1, -1, -1))          # a permutation of 0..n-1 (sorted table)
    if "gaps" in label_kind:
        return [3 * i + 1 for i in range(n)]       # filtered rows
    return ["r%d" % i for i in range(n)]           # string row labels


def _body_cc(n, ne, as_array, label_kind):
    def body():
        from pyrepseq import clustering
        from models import np_model
        from vlib import sym
        edges = []
        for k in range(ne):
            a, b = sym.sym_int(f"e{k}_a", 0, n - 1), sym.sym_int(f"e{k}_b", 0, n - 1)
            d = sym.sym_int(f"e{k}_d", 0, 2)
            edges.append((a, b, d))
        nodes = [sym.sym_str(f"node{i}", 1) for i in range(n)] if label_kind.startswith("str") else [10 * (i + 1) for i in range(n)]
        adj = np_model.array([list(e) for e in edges]) if as_array and ne else [tuple(e) for e in edges]
        arg = nodes
        if label_kind.endswith("series"):
            # the node labels as a pandas Series whose own index is NOT 0..n-1 (a column of a sorted / filtered table): labels pair with vertex
            # numbers by POSITION
            from models import pd_model
            arg = pd_model.Series(list(nodes), index=_series_index(label_kind, n))
        got = clustering.graph_clustering(adj, arg)
        # edges have been decided on this path (the graph constructor needs concrete vertex ids)
        conc = [(int(a), int(b)) for a, b, _ in edges]
        comp = _components(n, conc)
        size = {}
        for v in range(n):
            size[comp[v]] = size.get(comp[v], 0) + 1
        expect_rows = [v for v in range(n) if size[comp[v]] > 1]
        rows_nodes, rows_cluster = list(got["node"]), list(got["cluster"])
        if len(rows_nodes) != len(expect_rows):
            return False, (lambda: f"rows {_realize(rows_nodes)} for edges {_realize(conc)}")
        for pos, v in enumerate(expect_rows):
            if rows_nodes[pos] is not nodes[v] and not (not label_kind.startswith("str") and rows_nodes[pos] == nodes[v]):
                return False, "row labels are not the caller's node labels in input order"
        for i, v in enumerate(expect_rows):
            for j, w in enumerate(expect_rows):
                same = rows_cluster[i] == rows_cluster[j]
                if bool(same) != (comp[v] == comp[w]):
                    return False, (lambda: f"cluster ids {_realize(rows_cluster)} for edges {_realize(conc)}")
        return True
    return body


def _replay_cc(n, ne, as_array, label_kind):
    def replay(inputs):
        import numpy as np
        from pyrepseq import clustering
        edges = [(int(inputs[f"e{k}_a"]), int(inputs[f"e{k}_b"]), int(inputs[f"e{k}_d"])) for k in range(ne)]
        nodes = [inputs[f"node{i}"] for i in range(n)] if label_kind.startswith("str") else [10 * (i + 1) for i in range(n)]
        adj = np.array(edges) if as_array and ne else list(edges)
        arg = nodes
        if label_kind.endswith("series"):
            import pandas as pd
            arg = pd.Series(list(nodes), index=_series_index(label_kind, n), dtype=object)
        got = clustering.graph_clustering(adj, arg)
        comp = _components(n, [(a, b) for a, b, _ in edges])
        size = {}
        for v in range(n):
            size[comp[v]] = size.get(comp[v], 0) + 1
        expect = [v for v in range(n) if size[comp[v]] > 1]
        call = f"graph_clustering({edges}, {nodes!r})"
        if list(got["node"]) != [nodes[v] for v in expect]:
            return False, f"{call}: nodes {list(got['node'])!r}, expected {[nodes[v] for v in expect]!r}"
        cl = list(got["cluster"])
        for i, v in enumerate(expect):
            for j, w in enumerate(expect):
                if (cl[i] == cl[j]) != (comp[v] == comp[w]):
                    return False, f"{call}: cluster ids {cl}"
        return True, ""
    return replay


# ---------------------------------------------------------------- hierarchical_clustering (wiring)
def _body_hier(kind, custom_kws):
    def body():
        from pyrepseq import distance
        from pyrepseq.metric import Metric, Levenshtein
        from pyrepseq.metric.tcr_metric import BetaCdr3Levenshtein, Cdr3Levenshtein
        from models import pd_model, sp_model
        from vlib import sym

        class TermMetric(Metric):
            name = "term"

            def calc_pdist_vector(self, inst):
                return sp_model.Term("metric.pdist", (inst,), {})

            def calc_cdist_matrix(self, a, b):
                raise NotImplementedError
        seqs = [sym.sym_str(f"s{i}", 1) for i in range(3)]
        kw = {}
        if custom_kws == "partial":
            # option dictionaries that leave SciPy's own defaults in force (no criterion, no optimal_ordering): passed through as they are
            kw["linkage_kws"] = dict(method="single")
            kw["cluster_kws"] = dict(t=sym.sym_int("t", 0, 9))
        elif custom_kws:
            kw["linkage_kws"] = dict(method="single", foo=sym.sym_int("foo", 0, 9))
            kw["cluster_kws"] = dict(t=sym.sym_int("t", 0, 9), criterion="maxclust")
        lk_before = {k: dict(v) for k, v in kw.items()}
        if kind == "metric":
            data = list(seqs)
            m = TermMetric()
            linkage, cluster = distance.hierarchical_clustering(data, metric=m, **kw)
            if not (isinstance(linkage, sp_model.Term) and linkage.name == "linkage" and len(linkage.args) == 1):
                return False, f"linkage is {linkage!r}"
            d = linkage.args[0]
            if not (isinstance(d, sp_model.Term) and d.name == "metric.pdist" and d.args[0] is data):
                return False, "linkage not computed from metric.calc_pdist_vector(seqs)"
        else:
            # default metric: chosen exactly as pcDelta does; record which class computes the distances
            seen = []
            for cls in (Levenshtein, BetaCdr3Levenshtein, Cdr3Levenshtein):
                orig = cls.calc_pdist_vector
                cls.calc_pdist_vector = (lambda c: (lambda self, inst: (seen.append(c), sp_model.Term("pdist", (inst,), {"cls": c.__name__}))[1]))(cls)
            if kind == "list":
                data = list(seqs)
                want = Levenshtein
            elif kind == "beta":
                data = pd_model.DataFrame({"CDR3B": list(seqs), "TRBV": ["a", "b", "c"]})
                want = BetaCdr3Levenshtein
            elif kind == "paired":
                data = pd_model.DataFrame({"CDR3A": list(seqs), "CDR3B": list(seqs)})
                want = Cdr3Levenshtein
            else:   # legacy tuple
                data = (list(seqs), list(seqs))
                want = Cdr3Levenshtein
            linkage, cluster = distance.hierarchical_clustering(data, **kw)
            if seen != [want]:
                return False, f"distances computed by {[c.__name__ for c in seen]}, expected {want.__name__}"
            d = linkage.args[0] if isinstance(linkage, sp_model.Term) and linkage.args else None
        exp_l = kw.get("linkage_kws", dict(method="average", optimal_ordering=True))
        exp_c = kw.get("cluster_kws", dict(t=6, criterion="distance"))
        ok = (isinstance(linkage, sp_model.Term) and linkage.name == "linkage" and set(linkage.kwargs) == set(exp_l)
              and all(linkage.kwargs[k] is exp_l[k] or linkage.kwargs[k] == exp_l[k] for k in exp_l)
              and isinstance(cluster, sp_model.Term) and cluster.name == "fcluster" and len(cluster.args) == 1 and cluster.args[0] is linkage
              and set(cluster.kwargs) == set(exp_c) and all(cluster.kwargs[k] is exp_c[k] or cluster.kwargs[k] == exp_c[k] for k in exp_c))
        for k, v in kw.items():      # caller's option dictionaries untouched
            if set(v) != set(lk_before[k]) or any(v[x] is not lk_before[k][x] for x in v):
                return False, f"{k} was modified"
        return ok, (lambda: f"linkage options {_realize(getattr(linkage, 'kwargs', None))} fcluster options {_realize(getattr(cluster, 'kwargs', None))}, expected {_realize(exp_l)} and {_realize(exp_c)}")
    return body


def _replay_hier(kind, custom_kws):
    def replay(inputs):
        import numpy as np
        import pandas as pd
        import scipy.cluster.hierarchy as hc
        from pyrepseq import distance
        from pyrepseq.metric import Levenshtein
        seqs = ["CAS", "CAT", "GGG", "GGC"]
        kw = (dict(linkage_kws=dict(method="single"), cluster_kws=dict(t=2)) if custom_kws == "partial" else
              dict(linkage_kws=dict(method="single"), cluster_kws=dict(t=2, criterion="maxclust")) if custom_kws else {})
        data = seqs if kind in ("metric", "list") else (pd.DataFrame({"CDR3B": seqs}) if kind == "beta" else
                                                       pd.DataFrame({"CDR3A": seqs, "CDR3B": seqs}) if kind == "paired" else (seqs, seqs))
        linkage, cluster = distance.hierarchical_clustering(data, **kw)
        d = Levenshtein().calc_pdist_vector(seqs) * (2 if kind in ("paired", "tuple") else 1)
        wl = hc.linkage(d, **kw.get("linkage_kws", dict(method="average", optimal_ordering=True)))
        wc = hc.fcluster(wl, **kw.get("cluster_kws", dict(t=6, criterion="distance")))
        return bool(np.allclose(linkage, wl) and list(cluster) == list(wc)), f"hierarchical_clustering({kind}) = {cluster}"
    return replay


def _probe_hier_long():
    """real stack: distances of 256 and more between the two families must reach linkage unchanged (no narrowing of the condensed vector)"""
    import numpy as np
    import pandas as pd
    import scipy.cluster.hierarchy as hc
    from pyrepseq import distance
    from harness import common as hc_
    seqs = ["C" * 260, "C" * 259 + "A", "C" * 4, "C" * 3 + "A", "C" * 70000][:4]
    m = len(seqs)
    dvec = np.array([float(hc_.lev(seqs[i], seqs[j])) for i in range(m) for j in range(i + 1, m)])      # independent DP oracle: 1, 256, 256, 257/255 ...
    for kind, data, mult in (("list", list(seqs), 1), ("array", np.array(seqs), 1), ("beta", pd.DataFrame({"CDR3B": seqs}), 1),
                             ("paired", pd.DataFrame({"CDR3A": seqs, "CDR3B": seqs}), 2)):
        for kw in ({}, dict(linkage_kws=dict(method="single"), cluster_kws=dict(t=6 * mult, criterion="distance")),
                   dict(linkage_kws=dict(method="complete"), cluster_kws=dict(t=300 * mult, criterion="distance"))):
            linkage, cluster = distance.hierarchical_clustering(data, **kw)
            wl = hc.linkage(dvec * mult, **kw.get("linkage_kws", dict(method="average", optimal_ordering=True)))
            wc = hc.fcluster(wl, **kw.get("cluster_kws", dict(t=6, criterion="distance")))
            if not (np.allclose(np.asarray(linkage, dtype=float), wl) and list(cluster) == list(wc)):
                return False, (f"[long-sequence probe on the real library] hierarchical_clustering({kind} of ['C'*260, 'C'*259+'A', 'C'*4, 'C'*3+'A'], {kw}) "
                               f"clusters {list(cluster)}, merge heights {np.asarray(linkage)[:, 2].tolist()}; SciPy on the true distances {dvec.tolist()}"
                               f"{' (x2 for two chains)' if mult == 2 else ''}: clusters {list(wc)}, heights {wl[:, 2].tolist()}")
    return True, "long-sequence probe ok"


def conditions(tier):
    out = []
    T = tier == "thorough"
    cfgs = [(2, 0, False, "str"), (2, 1, False, "str"), (3, 1, False, "str"), (3, 2, False, "str"), (4, 2, False, "int"),
            (3, 2, True, "str"), (3, 0, True, "int"), (1, 0, False, "str")]
    cfgs += [(3, 1, False, "str-perm-series"), (3, 2, False, "int-gaps-series"), (2, 1, True, "str-text-series"), (3, 2, True, "str-perm-series")]
    if T:
        cfgs += [(4, 3, False, "int"), (3, 3, True, "str"), (5, 2, False, "str"), (4, 2, False, "str-perm-series")]
    for n, ne, arr, lk in cfgs:
        out.append(Condition(f"C15/cc/nodes={n}/edges={ne}/" + ("array" if arr else "list") + f"/{lk}", _body_cc(n, ne, arr, lk),
                             _replay_cc(n, ne, arr, lk), budget=400 if not T else 3000, models=M,
                             bounds=f"{ne} symbolic edges over {n} nodes ({'2-D array' if arr else 'list of tuples'}), {lk} labels"))
    for kind in ("metric", "list", "beta", "paired", "tuple"):
        for ck in (False, True, "partial"):
            if ck == "partial" and kind not in ("metric", "list", "beta"):
                continue
            out.append(Condition(f"C15/hierarchical/{kind}/" + ("partial_kws" if ck == "partial" else "custom_kws" if ck else "defaults"), _body_hier(kind, ck), _replay_hier(kind, ck),
                                 budget=120, models=M, bounds=f"hierarchical_clustering wiring, input kind {kind}"))
    from harness import common as hc_
    out.append(hc_.probe_condition("C15/probe/hierarchical/distances-of-256-and-more", "hierarchical_clustering on the real stack with pairwise distances 1, 255..257 (list, array, beta table, paired table; default, single and complete linkage) "
                                   "against scipy linkage/fcluster of independently computed DP distances", _probe_hier_long))
    return out
