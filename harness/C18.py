"""C18 - input cleaning is total, cell-local and never alters the caller's table.

Real code (pyrepseq/io.py): isvalidaa, isvalidcdr3, standardize_dataframe, multimerge.  tidytcells standardisers and
pandas.merge are term constructors (uninterpreted): the claim is which call is made with which arguments for which cell."""
from vlib.rt import Condition
from harness import common as hc

PROPERTY = "C18"
BOUNDS = ("predicates: str of length 0..3 with free content; symbolic int / float, NaN, inf, None, bool, bytes, list / tuple / set / dict / "
          "nested list of (symbolic) strings, empty containers;  standardize_dataframe: tables of 1-2 rows over chosen subsets of the nine "
          "standard columns plus an extra column, every cell a free string or missing (symbolic), the three boolean options symbolic, "
          "string options set to non-default values, optional col_mapper, standardize on/off, df/df_old;  multimerge: 2-3 frames, on = "
          "'index' or a column, with and without suffixes, extra keyword arguments")
OUTSIDE = ["what tidytcells returns for a given symbol (uninterpreted)", "pandas' join algorithm (pandas.merge is a term)",
           "tables larger than 2 rows", "strings longer than 3 for the predicates"]
ASSUMPTIONS = ["pandas subset model (copy / rename / map / column assignment semantics)", "CrossHair + plugin + z3"]

STD = ["TRAV", "CDR3A", "TRAJ", "TRBV", "CDR3B", "TRBJ", "Epitope", "MHCA", "MHCB"]


# ---------------------------------------------------------------- predicates
def _aa_term(s):
    from vlib import symops as so
    return so.b_and(*[so.b_or(*[so.eq(ord(s[i]), ord(a)) for a in hc.AMINO]) for i in range(len(s))])


def _cdr3_term(s):
    from vlib import symops as so
    if len(s) == 0:
        return False
    return so.b_and(_aa_term(s), so.eq(ord(s[0]), ord("C")), so.b_or(*[so.eq(ord(s[-1]), ord(c)) for c in "FWC"]))


VALUES = {
    "none": lambda S: None,
    "nan": lambda S: float("nan"),
    "inf": lambda S: float("inf"),
    "int": lambda S: S.sym_int("v", -5, 5),
    "float": lambda S: S.sym_real("v", -5, 5),
    "bool": lambda S: True,
    "bytes": lambda S: b"CASF",
    "bytes_empty": lambda S: b"",
    "list_str": lambda S: [S.sym_str("a", 1), S.sym_str("b", 1)],
    "tuple_str": lambda S: (S.sym_str("a", 1), S.sym_str("b", 1)),
    "list_empty": lambda S: [],
    "tuple_empty": lambda S: (),
    "dict": lambda S: {"C": 1, "F": 2},
    "dict_empty": lambda S: {},
    "set": lambda S: {"C", "F"},
    "nested": lambda S: [["C"], ["F"]],
    "list_mixed": lambda S: ["C", 1, None],
    "object": lambda S: object(),
}


class _Concrete:
    def __init__(self, inputs):
        self.i = inputs

    def sym_int(self, name, lo, hi):
        return int(self.i[name])

    def sym_real(self, name, lo, hi):
        v = self.i[name]
        return float(v["frac"][0]) / v["frac"][1] if isinstance(v, dict) else float(v)

    def sym_str(self, name, n):
        return self.i[name]


def _body_pred_str(fn, n):
    def body():
        from pyrepseq import io
        from vlib import sym, symops as so
        s = sym.sym_str("s", n)
        got = getattr(io, fn)(s)
        if not (got is True or got is False or type(got).__name__ == "SymbolicBool"):
            return False, f"{fn} returned {type(got).__name__}, not a bool"
        want = _aa_term(s) if fn == "isvalidaa" else _cdr3_term(s)
        return so.b_iff(got, want), f"{fn} returned {got}"
    return body


def _replay_pred_str(fn, n):
    def replay(inputs):
        from pyrepseq import io
        s = inputs["s"]
        got = getattr(io, fn)(s)
        aa = all(c in hc.AMINO for c in s)
        want = aa if fn == "isvalidaa" else (len(s) > 0 and aa and s[0] == "C" and s[-1] in "FWC")
        return isinstance(got, bool) and got == want, f"{fn}({s!r}) = {got!r}, expected {want}"
    return replay


SPECIALS = ["\n", "\r", "\r\n", " ", "\t", "\x0b", "\x0c", "\x1c", "\x1d", "\x1e", "\x85", "\u2028", "\u2029", "\x00", "\n\n"]


def _body_pred_special(fn, k, lead):
    """valid amino-acid letters followed / preceded by a whitespace-like character: the classic blind spots of pattern
    based rewrites ($ before a trailing newline, str.strip, str.isalpha ...).  CrossHair's regex model does not implement
    Python's '$ matches before a trailing newline', so these inputs are decided through the witness replay."""
    def body():
        from pyrepseq import io
        from vlib import sym
        core = sym.sym_str("core", 1, among=hc.AMINO)
        sym.register("special", "const", SPECIALS[k])
        s = (SPECIALS[k] + "C" + core + "F") if lead else ("C" + core + "F" + SPECIALS[k])
        got = getattr(io, fn)(s)
        return (not bool(got)), f"{fn}({s!r}) returned {got}, expected False"
    return body


def _replay_pred_special(fn, k, lead):
    def replay(inputs):
        from pyrepseq import io
        s = (SPECIALS[k] + "C" + inputs["core"] + "F") if lead else ("C" + inputs["core"] + "F" + SPECIALS[k])
        got = getattr(io, fn)(s)
        return got is False, f"{fn}({s!r}) = {got!r}, expected False"
    return replay


def _body_pred_obj(fn, kind):
    def body():
        from pyrepseq import io
        from vlib import sym
        v = VALUES[kind](sym)
        got = getattr(io, fn)(v)
        if not (got is True or got is False or type(got).__name__ == "SymbolicBool"):
            return False, f"{fn}({kind}) returned {type(got).__name__}, not a bool"
        if kind in ("none", "nan", "inf", "int", "float", "bool"):
            return (not bool(got)), f"{fn}({kind}) returned {got}, expected False for missing values and numbers"
        return True
    return body


def _replay_pred_obj(fn, kind):
    def replay(inputs):
        from pyrepseq import io
        v = VALUES[kind](_Concrete(inputs))
        got = getattr(io, fn)(v)
        ok = isinstance(got, bool) and (got is False if kind in ("none", "nan", "inf", "int", "float", "bool") else True)
        return ok, f"{fn}({v!r}) = {got!r}"
    return replay


# ---------------------------------------------------------------- standardize_dataframe
OPT = dict(species="MusMusculus", tcr_precision="allele", mhc_precision="protein")


def _expected_cell(col, cell, opts):
    """(term name, kwargs) documented for a non-missing cell of a standard column"""
    if col in ("CDR3A", "CDR3B"):
        return "junction.standardize", dict(seq=cell, strict=opts["strict_cdr3_standardization"], suppress_warnings=opts["suppress_warnings"])
    if col in ("TRAV", "TRAJ", "TRBV", "TRBJ"):
        return "tr.standardize", dict(gene=cell, species=opts["species"], enforce_functional=opts["tcr_enforce_functional"],
                                      precision=opts["tcr_precision"], suppress_warnings=opts["suppress_warnings"])
    if col in ("MHCA", "MHCB"):
        return "mh.standardize", dict(gene=cell, species=opts["species"], precision=opts["mhc_precision"],
                                      suppress_warnings=opts["suppress_warnings"])
    if col == "Epitope":
        return "aa.standardize", dict(seq=cell, on_fail="keep", suppress_warnings=opts["suppress_warnings"])
    return None


def _same(a, b):
    """identity for strings/None (cells are passed through), equality for concrete scalars"""
    if a is b:
        return True
    if isinstance(a, (bool, int, float)) and isinstance(b, (bool, int, float)) and not hasattr(a, "var") and not hasattr(b, "var"):
        return a == b
    if isinstance(a, str) and isinstance(b, str):
        return a == b
    if hasattr(a, "var") or hasattr(b, "var"):
        return a == b
    return False


def _row_labels(nrows, dup_index):
    # repeated row labels (a concatenation of two batches kept its labels) when asked for: the index is preserved and rows are independent
    return [7] * nrows if dup_index else [10 + 3 * r for r in range(nrows)]


def _other_options(kw, neg):
    """the same call with every option that selects a standardisation variant changed - used as an EARLIER call on the same cells"""
    pre = dict(kw)
    for b in ("tcr_enforce_functional", "strict_cdr3_standardization"):
        pre[b] = neg(kw[b])
    for p_ in ("tcr_precision", "mhc_precision"):
        pre[p_] = "gene" if kw.get(p_) == "allele" else "allele"
    return pre


def _body_std(cols, nrows, mode, dup_index=False, prior=False):
    """mode: 'std' | 'nostd' | 'mapper' | 'df_old' | 'both' | 'neither'"""
    def body():
        from pyrepseq import io
        from models import pd_model, sp_model
        from vlib import sym
        source_cols = list(cols)
        mapper = None
        if mode == "mapper":
            mapper = {"foo": source_cols[0]}
            source_cols = ["foo"] + source_cols[1:]
        cells = {}
        for c in source_cols + ["extra"]:
            cells[c] = []
            for r in range(nrows):
                may_miss = len(source_cols) <= 3 or c in (source_cols[0], source_cols[4], source_cols[6], "extra")
                missing = bool(sym.sym_bool(f"{c}_{r}_missing")) if may_miss else False
                s = sym.sym_str(f"{c}_{r}", 1)
                cells[c].append(None if missing else s)
        index = _row_labels(nrows, dup_index)
        df = pd_model.DataFrame({c: list(v) for c, v in cells.items()}, index=index)
        before = {c: list(df._cols[c]) for c in df._names}
        before_names, before_index = list(df._names), list(df._index)
        opts = dict(OPT)
        for b in ("tcr_enforce_functional", "strict_cdr3_standardization", "suppress_warnings"):
            opts[b] = sym.sym_bool(b)          # passed through un-branched: any wiring error is an identity mismatch
        kw = dict(opts)
        if mode == "nostd":
            kw["standardize"] = False
        if mapper is not None:
            kw["col_mapper"] = mapper
        if mode in ("both", "neither"):
            try:
                io.standardize_dataframe(df=df if mode == "both" else None, df_old=df if mode == "both" else None, **kw)
            except ValueError:
                return True
            return False, f"df/df_old exclusivity: no ValueError in mode {mode}"
        if prior:       # an earlier call on the same cells with other options must leave no trace in this one
            from vlib import symops as _so
            io.standardize_dataframe(df.copy(), **_other_options(kw, _so.b_not))
        out = io.standardize_dataframe(df_old=df, **kw) if mode == "df_old" else io.standardize_dataframe(df, **kw)
        # 1. the caller's table is untouched
        if df._names != before_names or df._index != before_index:
            return False, "input frame's columns/index changed"
        for c in before_names:
            if len(df._cols[c]) != len(before[c]) or any(x is not y for x, y in zip(df._cols[c], before[c])):
                return False, f"input frame modified in column {c}"
        # 2. shape, order, index, names
        if out is df:
            return False, "returned the input object itself"
        exp_names = [mapper.get(c, c) if mapper else c for c in before_names]
        if list(out._names) != exp_names or list(out._index) != index:
            return False, f"columns {out._names} / index {out._index} (expected {exp_names} / {index})"
        # 3. cell-local transformation
        for c_src, c_out in zip(before_names, exp_names):
            for r in range(nrows):
                cell, got = before[c_src][r], out._cols[c_out][r]
                exp = _expected_cell(c_out, cell, opts) if mode != "nostd" else None
                if exp is None or cell is None:
                    if exp is not None and cell is None:
                        if got is not None:
                            return False, f"missing cell {c_out}[{r}] became {got!r}"
                        continue
                    if got is not cell:
                        return False, f"cell {c_out}[{r}] changed to {got!r}"
                    continue
                name, ekw = exp
                if not isinstance(got, sp_model.Term) or got.name != name or got.args != ():
                    return False, f"cell {c_out}[{r}] = {got!r}, expected call {name}"
                if set(got.kwargs) != set(ekw) or not all(_same(got.kwargs[k], ekw[k]) for k in ekw):
                    return False, f"cell {c_out}[{r}]: {name} called with {got.kwargs!r}, expected {ekw!r}"
        return True
    return body


def _replay_std(cols, nrows, mode, dup_index=False, prior=False):
    def replay(inputs):
        # real pandas; tidytcells (whose answers are outside the claim) is replaced by a recorder so that the documented call
        # per cell can be observed; a second run with the real tidytcells checks what does not depend on its answers
        import pandas as pd
        from pyrepseq import io
        source_cols = list(cols)
        mapper = None
        if mode == "mapper":
            mapper = {"foo": source_cols[0]}
            source_cols = ["foo"] + source_cols[1:]
        data = {c: [None if inputs.get(f"{c}_{r}_missing") else inputs[f"{c}_{r}"] for r in range(nrows)] for c in source_cols + ["extra"]}
        index = _row_labels(nrows, dup_index)
        opts = dict(OPT)
        for b in ("tcr_enforce_functional", "strict_cdr3_standardization", "suppress_warnings"):
            opts[b] = bool(inputs.get(b))

        class Rec:
            def __init__(self, name):
                self.name = name

            def standardize(self, *a, **kw):
                return (self.name, a, tuple(sorted(kw.items())))

        class FakeTT:
            junction, tr, mh, aa = Rec("junction.standardize"), Rec("tr.standardize"), Rec("mh.standardize"), Rec("aa.standardize")
        for fake in (True, False):
            df = pd.DataFrame(data, index=index, dtype=object)
            snap = df.copy(deep=True)
            kw = dict(opts)
            if not fake:
                kw["suppress_warnings"], kw["species"] = True, "HomoSapiens"
            if mode == "nostd":
                kw["standardize"] = False
            if mapper:
                kw["col_mapper"] = mapper
            real_tt = io.tt
            if fake:
                io.tt = FakeTT
            try:
                if mode in ("both", "neither"):
                    try:
                        io.standardize_dataframe(df=df if mode == "both" else None, df_old=df if mode == "both" else None, **kw)
                    except ValueError:
                        continue
                    return False, "no ValueError"
                if prior:
                    io.standardize_dataframe(df.copy(deep=True), **_other_options(kw, lambda b: not b))
                out = io.standardize_dataframe(df_old=df, **kw) if mode == "df_old" else io.standardize_dataframe(df, **kw)
            finally:
                io.tt = real_tt
            if not df.equals(snap):
                return False, f"input frame modified: {df!r}"
            exp_names = [mapper.get(c, c) if mapper else c for c in df.columns]
            if list(out.columns) != exp_names or list(out.index) != index:
                return False, f"columns/index changed: {list(out.columns)} {list(out.index)}"
            if not out["extra"].equals(df["extra"]):
                return False, "extra column changed"
            for c_src, c_out in zip(df.columns, exp_names):
                for r in range(nrows):
                    cell, got = df[c_src].iloc[r], out[c_out].iloc[r]
                    if pd.isna(cell):
                        if not pd.isna(got):
                            return False, f"missing cell {c_out}[{r}] became {got!r}"
                        continue
                    exp = _expected_cell(c_out, cell, opts) if mode != "nostd" else None
                    if exp is None:
                        if got != cell:
                            return False, f"cell {c_out}[{r}] changed from {cell!r} to {got!r}"
                    elif fake:
                        want = (exp[0], (), tuple(sorted(exp[1].items())))
                        if got != want:
                            return False, f"cell {c_out}[{r}]: tidytcells call {got!r}, documented call {want!r}"
        return True, ""
    return replay


# ---------------------------------------------------------------- multimerge
def _frames(n):
    from models import pd_model
    return [pd_model.DataFrame({"k": [1, 2 + i], f"v{i}": ["a", "b"]}, index=[5, 6 + i]) for i in range(n)]


def _term_eq(a, b):
    from models import pd_model, sp_model
    if isinstance(a, sp_model.Term) and isinstance(b, sp_model.Term):
        return (a.name == b.name and len(a.args) == len(b.args) and all(_term_eq(x, y) for x, y in zip(a.args, b.args))
                and set(a.kwargs) == set(b.kwargs) and all(_term_eq(a.kwargs[k], b.kwargs[k]) for k in a.kwargs))
    if isinstance(a, pd_model.DataFrame) and isinstance(b, pd_model.DataFrame):
        return a.equals(b)
    return type(a) == type(b) and a == b


def _body_mm(n, on, suffixes, extra):
    def body():
        from pyrepseq import io
        from models.sp_model import Term
        dfs = _frames(n)
        kw = dict(extra)
        if suffixes:
            kw["suffixes"] = [f"s{i}" for i in range(n)]
        got = io.multimerge(dfs, on, **kw)
        mk = dict(how="outer")
        mk.update(extra)
        if suffixes:
            parts = []
            for i, df in enumerate(_frames(n)):
                if on != "index":
                    df = df.set_index(on)
                parts.append(df.add_suffix(f"_s{i}"))
            keys = dict(right_index=True, left_index=True)
        else:
            parts = _frames(n)
            keys = dict(right_index=True, left_index=True) if on == "index" else dict(on=on)
        want = parts[0]
        for p in parts[1:]:
            want = Term("merge", (want, p), {**keys, **mk})
        # `on` may legitimately be passed positionally-by-name or as keyword: normalise a 3rd positional argument
        def norm(t):
            if isinstance(t, Term) and t.name == "merge":
                args = tuple(norm(a) for a in t.args)
                kwargs = dict(t.kwargs)
                return Term("merge", args, kwargs)
            return t
        return _term_eq(norm(got), want), f"multimerge returned {got!r}, expected {want!r}"
    return body


def _replay_mm(n, on, suffixes, extra):
    def replay(inputs):
        import pandas as pd
        from functools import reduce
        from pyrepseq import io
        dfs = [pd.DataFrame({"k": [1, 2 + i], f"v{i}": ["a", "b"]}, index=[5, 6 + i]) for i in range(n)]
        kw = dict(extra)
        if suffixes:
            kw["suffixes"] = [f"s{i}" for i in range(n)]
        got = io.multimerge([d.copy() for d in dfs], on, **kw)
        mk = dict(how="outer")
        mk.update(extra)
        if suffixes:
            parts = [(d if on == "index" else d.set_index(on)).add_suffix(f"_s{i}") for i, d in enumerate(dfs)]
            want = reduce(lambda l, r: pd.merge(l, r, left_index=True, right_index=True, **mk), parts)
        elif on == "index":
            want = reduce(lambda l, r: pd.merge(l, r, left_index=True, right_index=True, **mk), dfs)
        else:
            want = reduce(lambda l, r: pd.merge(l, r, on=on, **mk), dfs)
        return got.equals(want), f"multimerge(on={on!r}, {kw}) =\n{got}\nexpected\n{want}"
    return replay


M = ("np", "pd", "misc")


def conditions(tier):
    out = []
    for fn in ("isvalidaa", "isvalidcdr3"):
        for n in range(0, 3 if tier == "quick" else 4):
            out.append(Condition(f"C18/{fn}/str/len={n}", _body_pred_str(fn, n), _replay_pred_str(fn, n), budget=300 if tier == "quick" else 6000,
                                 bounds=f"{fn} on a free string of length {n}"))
        for kind in VALUES:
            out.append(Condition(f"C18/{fn}/{kind}", _body_pred_obj(fn, kind), _replay_pred_obj(fn, kind), budget=60,
                                 bounds=f"{fn} on a value of kind {kind}"))
        for k in range(len(SPECIALS)):
            for lead in (False, True):
                if lead and k > 3:
                    continue
                out.append(Condition(f"C18/{fn}/special/{k}/" + ("lead" if lead else "trail"), _body_pred_special(fn, k, lead),
                                     _replay_pred_special(fn, k, lead), budget=60,
                                     bounds=f"{fn} on C<letter>F with the character {SPECIALS[k]!r} " + ("prepended" if lead else "appended")))
    sets = {"all": STD, "beta": ["TRBV", "CDR3B", "TRBJ"], "mixed": ["CDR3A", "MHCA", "Epitope"], "one": ["TRAJ"], "mhcb": ["MHCB", "TRAV"]}
    for name, cols in sets.items():
        for mode in ("std", "nostd", "mapper", "df_old"):
            if name == "all" and mode != "std":
                continue
            nrows = 2 if (name in ("one", "mhcb") or tier == "thorough") and name != "all" else 1
            if tier == "quick" and name in ("one", "mhcb") and mode in ("df_old",):
                continue
            out.append(Condition(f"C18/standardize_dataframe/{name}/{mode}/rows={nrows}", _body_std(cols, nrows, mode), _replay_std(cols, nrows, mode),
                                 budget=600, models=M, bounds=f"columns {cols}+extra, {nrows} row(s), mode {mode}"))
    for name, mode in [("mhcb", "std"), ("one", "std"), ("mixed", "mapper")]:
        out.append(Condition(f"C18/standardize_dataframe/{name}/{mode}/rows=2/repeated-row-labels", _body_std(sets[name], 2, mode, True),
                             _replay_std(sets[name], 2, mode, True), budget=600, models=M,
                             bounds=f"columns {sets[name]}+extra, 2 rows carrying the SAME row label, symbolic missing cells, mode {mode}"))
    for name in ("one", "mhcb", "mixed"):
        out.append(Condition(f"C18/standardize_dataframe/{name}/std/rows=1/after-a-call-with-other-options", _body_std(sets[name], 1, "std", False, True),
                             _replay_std(sets[name], 1, "std", False, True), budget=600, models=M,
                             bounds=f"columns {sets[name]}+extra, 1 row; the same cells were standardised before with the opposite functionality / strictness / precision options"))
    for mode in ("both", "neither"):
        out.append(Condition(f"C18/standardize_dataframe/{mode}", _body_std(["TRBV"], 1, mode), _replay_std(["TRBV"], 1, mode), budget=60,
                             models=M, bounds=f"df/df_old {mode}"))
    for n in (2, 3):
        for on in ("index", "k"):
            for suffixes in (False, True):
                for extra in ({}, {"how": "inner"}, {"sort": True}):
                    if tier == "quick" and n == 3 and extra:
                        continue
                    tag = "+".join(f"{k}={v}" for k, v in extra.items()) or "default"
                    out.append(Condition(f"C18/multimerge/n={n}/on={on}/" + ("suffixes" if suffixes else "plain") + f"/{tag}",
                                         _body_mm(n, on, suffixes, extra), _replay_mm(n, on, suffixes, extra), budget=60, models=M,
                                         bounds=f"multimerge of {n} frames on {on}"))
    return out
