"""C16 - richness and overlap estimators follow their closed forms for every count vector.

SMT engine: chao1, chao2, var_chao1, var_chao2 are executed on symbolic non-negative integer count vectors (fork on every
branch of the real code), the result term is compared with the closed form by z3.  XH engine: jaccard_index, overlap,
overlap_coefficient on lists / sets / Series of symbolic labels with symbolic missing positions."""
from fractions import Fraction

from vlib.rt import Condition

PROPERTY = "C16"
BOUNDS = ("frequency-of-frequency vectors of length 1..4 with arbitrary non-negative integer entries (unbounded values: the closed "
          "forms are decided as polynomial identities by z3), given as Python lists and as NumPy arrays; replicate count m symbolic; "
          "overlap utilities: two collections of <= 3 symbolic integer labels each, as list / set / Series, with symbolic missing positions")
OUTSIDE = ["vectors longer than 4 (only the first two entries and the sum matter to the code, which the encoding shows)",
           "IEEE rounding (reals)", "collections larger than 3"]
ASSUMPTIONS = ["reals stand in for floats", "z3 nonlinear real arithmetic", "NumPy object-array arithmetic dispatches to the element operators"]


def _closed_chao1(c):
    f1 = c[0]
    S = sum(c)
    if len(c) == 1 or c[1] == 0:
        return S + Fraction(f1 * (f1 - 1), 2)
    return S + Fraction(f1 * f1, 2 * c[1])


def _closed_var(c):
    if len(c) == 1 or c[1] == 0:
        return None
    r = Fraction(c[0], c[1])
    return c[1] * (r ** 2 / 2 + r ** 3 + r ** 4 / 4)


def _body_chao(fn, n, as_array, needs_m):
    def body(E):
        import numpy as np
        import z3
        from pyrepseq import stats
        from vlib import smt
        cs = [E.int(f"c{i}", 0) for i in range(n)]
        arg = np.array(cs, dtype=object) if as_array else list(cs)
        args = (arg,) + ((E.int("m", 1),) if needs_m else ())
        got = getattr(stats, fn)(*args)
        t = [c.term for c in cs]
        S = sum(t[1:], t[0])
        f1 = z3.ToReal(t[0])
        f2_zero = z3.BoolVal(True) if n == 1 else (t[1] == 0)
        f2 = z3.ToReal(t[1]) if n > 1 else None
        if fn == "chao1":
            want_zero = z3.ToReal(S) + f1 * (f1 - 1) / 2
            want_pos = None if n == 1 else z3.ToReal(S) + f1 * f1 / (2 * f2)
        elif fn == "chao2":
            want_zero = None      # NaN
            want_pos = None if n == 1 else z3.ToReal(S) + f1 * f1 / (2 * f2)
        else:
            want_zero = None      # NaN
            if n > 1:
                r = f1 / f2
                want_pos = f2 * (r * r / 2 + r * r * r + r * r * r * r / 4)
            else:
                want_pos = None
        if smt.is_nan(got):
            # NaN is right exactly when f2 is zero/absent and the closed form says undefined
            return (z3.And(f2_zero, z3.BoolVal(want_zero is None)), f"{fn} returned NaN")
        g = smt.term_of(E, got)
        g = z3.ToReal(g) if g.sort() == z3.IntSort() else g
        claims = []
        if want_zero is not None:
            claims.append(z3.Implies(f2_zero, g == want_zero))
        else:
            claims.append(z3.Not(f2_zero))
        if want_pos is not None:
            claims.append(z3.Implies(z3.Not(f2_zero), g == want_pos))
        if fn in ("chao1", "chao2"):
            claims.append(g >= z3.ToReal(S))          # a defined estimate is never below the observed richness
        return (z3.And(*claims), f"{fn} returned {got}")
    return body


def _replay_chao(fn, n, as_array, needs_m):
    def replay(inputs):
        import math
        import numpy as np
        from pyrepseq import stats
        c = [int(inputs[f"c{i}"]) for i in range(n)]
        arg = np.array(c) if as_array else list(c)
        args = (arg,) + ((int(inputs["m"]),) if needs_m else ())
        got = getattr(stats, fn)(*args)
        if fn == "chao1":
            want = _closed_chao1(c)
        elif fn == "chao2":
            want = None if (n == 1 or c[1] == 0) else sum(c) + Fraction(c[0] ** 2, 2 * c[1])
        else:
            want = _closed_var(c)
        call = f"{fn}({arg!r}{', ' + str(args[1]) if needs_m else ''})"
        if want is None:
            ok = isinstance(got, float) and math.isnan(got)
            return ok, f"{call} = {got!r}, expected NaN"
        ok = (not (isinstance(got, float) and math.isnan(got))) and abs(float(got) - float(want)) <= 1e-9 * max(1.0, abs(float(want)))
        return ok, f"{call} = {got!r}, closed form {float(want)!r}"
    return replay


# ------------------------------------------------------------------ overlap utilities (XH)
def _mk_coll(kind, vals, missing, sym, prefix):
    from models import pd_model
    items = []
    for i, v in enumerate(vals):
        items.append(None if missing[i] else v)
    if kind == "set":
        from crosshair.simplestructs import ShellMutableSet
        s = ShellMutableSet()
        for it in items:
            s.add(it)
        return s
    if kind == "series":
        return pd_model.Series(items)
    return list(items)


def _body_overlap(fn, kindA, kindB, nA, nB, with_missing):
    def body():
        from pyrepseq import stats
        from vlib import sym, symops as so
        a = [sym.sym_int(f"a{i}", 0, 4) for i in range(nA)]
        b = [sym.sym_int(f"b{i}", 0, 4) for i in range(nB)]
        ma = [bool(sym.sym_bool(f"ma{i}")) if with_missing else False for i in range(nA)]   # forks: which cells are missing
        mb = [bool(sym.sym_bool(f"mb{i}")) if with_missing else False for i in range(nB)]
        A, B = _mk_coll(kindA, a, ma, sym, "a"), _mk_coll(kindB, b, mb, sym, "b")
        va = [v for v, m in zip(a, ma) if not m]
        vb = [v for v, m in zip(b, mb) if not m]
        if fn == "jaccard_index" and ((kindA != "series" and any(ma)) or (kindB != "series" and any(mb))):
            return True                      # documented: missing values are dropped for Series only
        # oracle as terms: an element counts once (first occurrence)
        def firsts(xs):
            return [so.b_and(*[so.ne(xs[i], xs[j]) for j in range(i)]) for i in range(len(xs))]
        fa, fb = firsts(va), firsts(vb)
        inter = so.count_true([so.b_and(fa[i], so.b_or(*[so.eq(va[i], y) for y in vb])) for i in range(len(va))])
        ca, cb = so.count_true(fa), so.count_true(fb)
        union = so.add(so.add(ca, cb), so.mul(-1, inter))
        try:
            got = getattr(stats, fn)(A, B)
            got_rev = getattr(stats, fn)(B, A)
        except ZeroDivisionError:
            if fn == "jaccard_index":
                return so.eq(union, 0), "ZeroDivisionError on a non-empty union"
            raise
        import math
        if fn == "overlap":
            ok = so.b_and(so.eq(got, inter), so.eq(got_rev, inter))
        elif fn == "jaccard_index":
            # got == inter / union  <=>  got * union == inter   (union > 0 on this path, else ZeroDivisionError above)
            ok = so.b_and(so.close(so.mul(got, union), inter), so.close(so.mul(got_rev, union), inter))
        else:
            if isinstance(got, float) and math.isnan(got):
                return so.b_and(so.b_or(so.eq(ca, 0), so.eq(cb, 0)), isinstance(got_rev, float) and math.isnan(got_rev)), "nan"
            mn = so.smin(ca, cb)
            ok = so.b_and(so.gt(mn, 0), so.close(so.mul(got, mn), inter), so.close(so.mul(got_rev, mn), inter))
        return ok, f"{fn} returned {got!r} / reversed {got_rev!r}"
    return body


def _replay_overlap(fn, kindA, kindB, nA, nB, with_missing):
    def replay(inputs):
        import math
        import pandas as pd
        from pyrepseq import stats

        def build(kind, prefix, n):
            items = [None if (with_missing and inputs.get(f"m{prefix}{i}")) else int(inputs[f"{prefix}{i}"]) for i in range(n)]
            if kind == "set":
                return set(items), items
            if kind == "series":
                return pd.Series(items, dtype=object), items
            return list(items), items
        A, ia = build(kindA, "a", nA)
        B, ib = build(kindB, "b", nB)
        if fn == "jaccard_index" and ((kindA != "series" and None in ia) or (kindB != "series" and None in ib)):
            return True, ""
        sa, sb = {x for x in ia if x is not None}, {x for x in ib if x is not None}
        call = f"{fn}({A!r}, {B!r})"
        try:
            got, rev = getattr(stats, fn)(A, B), getattr(stats, fn)(B, A)
        except ZeroDivisionError:
            return (fn == "jaccard_index" and not (sa | sb)), f"{call} raised ZeroDivisionError"
        if fn == "overlap":
            want = len(sa & sb)
        elif fn == "jaccard_index":
            want = len(sa & sb) / len(sa | sb)
        else:
            want = math.nan if (not sa or not sb) else len(sa & sb) / min(len(sa), len(sb))
        same = lambda x, y: (isinstance(x, float) and math.isnan(x) and isinstance(y, float) and math.isnan(y)) or abs(x - y) < 1e-12
        return same(got, want) and same(rev, want), f"{call} = {got!r} (reversed {rev!r}), expected {want!r}"
    return replay


def _probe_large_counts():
    """closed forms at magnitudes where fixed-width integer arithmetic wraps (NumPy int64 elements): f1 around 10^5"""
    import math
    import numpy as np
    from fractions import Fraction as F
    from pyrepseq import stats
    bad = []
    for counts in ([60000, 1, 3], [60000, 25000, 7000, 1500], [250000, 3], [90000, 40000], [3000000, 2, 1], [5, 2, 1], [300, 1, 3], [200, 150]):
        f1, f2 = counts[0], counts[1]
        sobs = sum(counts)
        r = F(f1, f2)
        want = {"chao1": sobs + F(f1 * f1, 2 * f2), "var_chao1": f2 * (r * r / 2 + r ** 3 + r ** 4 / 4)}
        m = 7
        want2 = {"chao2": sobs + F(f1 * f1, 2 * f2), "var_chao2": f2 * (r * r / 2 + r ** 3 + r ** 4 / 4)}
        kinds = [("list", list(counts)), ("int64 array", np.array(counts, dtype=np.int64)), ("int32 array", np.array(counts, dtype=np.int32))]
        if max(counts) < 2 ** 15:
            kinds += [("int16 array", np.array(counts, dtype=np.int16)), ("uint16 array", np.array(counts, dtype=np.uint16))]
        for kind, arg in kinds:
            for fn, w in want.items():
                got = float(getattr(stats, fn)(arg))
                if not math.isclose(got, float(w), rel_tol=1e-9):
                    bad.append(f"{fn}({kind} {counts}) = {got!r}, closed form {float(w)!r}")
            for fn, w in want2.items():
                got = float(getattr(stats, fn)(arg, m))
                if not math.isclose(got, float(w), rel_tol=1e-9):
                    bad.append(f"{fn}({kind} {counts}, {m}) = {got!r}, closed form {float(w)!r}")
    return not bad, "[large-count probe] " + ("; ".join(bad[:6]) if bad else "ok")


def conditions(tier):
    out = []
    nmax = 4
    for fn, needs_m in (("chao1", False), ("var_chao1", False), ("chao2", True), ("var_chao2", True)):
        for n in range(1, nmax + 1):
            for as_array in (False, True):
                cid = f"C16/{fn}/len={n}/" + ("array" if as_array else "list")
                out.append(Condition(cid, _body_chao(fn, n, as_array, needs_m), _replay_chao(fn, n, as_array, needs_m), budget=120,
                                     engine="SMT", bounds=f"{fn} on {n} symbolic non-negative integer counts ("
                                     + ("ndarray" if as_array else "list") + ")"))
    kinds = [("list", "list"), ("set", "list"), ("series", "series"), ("list", "series")]
    sizes = [(2, 2), (3, 2)] if tier == "quick" else [(2, 2), (3, 2), (3, 3)]
    for fn in ("jaccard_index", "overlap", "overlap_coefficient"):
        for ka, kb in kinds:
            for na, nb in sizes:
                for wm in (False, True):
                    if wm and (na, nb) != (2, 2) and tier == "quick":
                        continue
                    cid = f"C16/{fn}/{ka}-{kb}/n={na},{nb}/" + ("missing" if wm else "complete")
                    out.append(Condition(cid, _body_overlap(fn, ka, kb, na, nb, wm), _replay_overlap(fn, ka, kb, na, nb, wm),
                                         budget=200 if tier == "quick" else 1200, models=("np", "pd"),
                                         bounds=f"{fn} on a {ka} of {na} and a {kb} of {nb} symbolic labels"
                                                + (", symbolic missing positions" if wm else "")))
    from harness import common as hc
    out.append(hc.probe_condition("C16/probe/chao/large-counts", "chao1 / var_chao1 / chao2 / var_chao2 on lists and int64 / int32 arrays with singleton counts of 60 000 ... 3 000 000: "
                                  "closed forms to 1e-9 relative", _probe_large_counts))
    return out
