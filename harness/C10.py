"""C10 - search results do not depend on output format or input container; invalid arguments are rejected.

Real code: _make_output, _check_common_input, ensure_numpy, and the four public search functions on small shapes."""
from vlib.rt import Condition
from harness import common as hc

PROPERTY = "C10"
BOUNDS = ("(a) output formats: each engine, self and two-collection mode, 2-3 strings of lengths <= 2, max_edits 1..2; "
          "(b) containers: list / tuple / array / Series whose index labels are SYMBOLIC integers (covers default, shifted, "
          "permuted labels in one condition) and a string-label variant; (c) invalid arguments: symbolic max_edits <= 0, "
          "n_cpu <= 0, max_returns <= 0, symbolic output_type strings of length <= 3 plus near-miss literals, non-string "
          "elements, empty input - for all four public search functions")
OUTSIDE = ["longer inputs", "SciPy's sparse-matrix internals (contract: duplicates are summed)", "which exception type is raised",
           "python -O (argument validation is written with assert)"]
ASSUMPTIONS = ["scipy.sparse.coo_matrix contract (duplicates summed, indices within shape)", "pandas Series label semantics "
               "(pandas 3: s[i] is label based), NumPy subset model", "rapidfuzz contracts", "CrossHair + plugin + z3"]

ENGINES = ("nearest_neighbor", "symdel", "hash_based", "kdtree")


def _letters(engine):
    return "AC" if engine in ("hash_based", "kdtree") else None


def _setup(engine):
    def setup():
        import pyrepseq  # noqa
        if engine == "hash_based":
            hc.set_alphabet("AC")
    return setup


# ------------------------------------------------------------------ (a) output formats
def _body_fmt(engine, shape, qshape, k, fmt):
    def body():
        import pyrepseq
        from vlib import sym, symops as so
        from models.np_model import NDArray
        from models import sp_model
        L = _letters(engine)
        seqs = [sym.sym_str(f"s{i}", n, among=L) for i, n in enumerate(shape)]
        kw = {}
        if qshape is not None:
            qs = [sym.sym_str(f"q{i}", n, among=L) for i, n in enumerate(qshape)]
            kw["seqs2"] = qs
        else:
            qs = seqs
        got = getattr(pyrepseq, engine)(seqs, max_edits=k, output_type=fmt, **kw)
        if fmt == "coo_matrix":
            if not isinstance(got, sp_model.coo_matrix):
                return False, f"coo_matrix output is {type(got).__name__}"
            if tuple(got.shape) != (len(seqs), len(qs)):
                return False, f"shape {got.shape}"
            got = got.toarray()
        if not isinstance(got, NDArray) or got.shape != (len(seqs), len(qs)):
            return False, f"output {type(got).__name__} shape {getattr(got, 'shape', None)}"
        conds = []
        for r in range(len(seqs)):
            for q in range(len(qs)):
                cell = got[r, q]
                if qshape is None and r == q:
                    conds.append(so.eq(cell, 0))
                    continue
                d = hc.lev_term(qs[q], seqs[r])
                conds.append(so.eq(cell, so.ite(so.le(d, k), d, 0)))
        return so.b_and(*conds), (lambda: f"{engine}(output_type={fmt!r}) returned {_realize(got.tolist())}")
    return body


def _realize(x):
    from crosshair.core import deep_realize
    try:
        return repr(deep_realize(x))
    except Exception:  # noqa
        return "<unrealisable>"


def _replay_fmt(engine, shape, qshape, k, fmt):
    def replay(inputs):
        import numpy as np
        import scipy.sparse
        import pyrepseq
        seqs = [inputs[f"s{i}"] for i in range(len(shape))]
        kw = {}
        qs = seqs
        if qshape is not None:
            qs = [inputs[f"q{i}"] for i in range(len(qshape))]
            kw["seqs2"] = list(qs)
        got = getattr(pyrepseq, engine)(list(seqs), max_edits=k, output_type=fmt, **kw)
        if fmt == "coo_matrix":
            if not scipy.sparse.issparse(got):
                return False, f"coo_matrix output is {type(got).__name__}"
            got = got.toarray()
        want = np.zeros((len(seqs), len(qs)))
        for q, r, d in hc.want_triplets(qs, seqs, hc.lev, k, qshape is None):
            want[r, q] = d
        ok = isinstance(got, np.ndarray) and got.shape == want.shape and bool((got == want).all())
        return ok, f"{engine}({seqs!r}, max_edits={k}, output_type={fmt!r}, {kw}): got {np.asarray(got).tolist()} want {want.tolist()}"
    return replay


# ------------------------------------------------------------------ (a'') output formats with a real-valued custom distance
def _body_fmt_custom(engine, shape, k, fmt):
    def body():
        import pyrepseq
        from vlib import sym, symops as so
        from models.np_model import NDArray
        from models import sp_model
        L = _letters(engine)
        seqs = [sym.sym_str(f"s{i}", n, among=L) for i, n in enumerate(shape)]
        cd = hc.ArbitraryDistance(seqs)
        got = getattr(pyrepseq, engine)(seqs, max_edits=k, custom_distance=cd, output_type=fmt)
        if fmt == "coo_matrix":
            if not isinstance(got, sp_model.coo_matrix):
                return False, f"coo_matrix output is {type(got).__name__}"
            got = got.toarray()
        if not isinstance(got, NDArray) or got.shape != (len(seqs), len(seqs)):
            return False, f"output {type(got).__name__} shape {getattr(got, 'shape', None)}"
        conds = []
        for r in range(len(seqs)):
            for q in range(len(seqs)):
                cell = got[r, q]
                if r == q:
                    conds.append(so.eq(cell, 0))
                else:
                    conds.append(so.eq(cell, so.ite(so.le(hc.lev_term(seqs[q], seqs[r]), k), cd.value(q, r), 0)))
        return so.b_and(*conds), (lambda: f"{engine}(custom, output_type={fmt!r}) returned {_realize(got.tolist())}")
    return body


def _replay_fmt_custom(engine, shape, k, fmt):
    def replay(inputs):
        import numpy as np
        import scipy.sparse
        import pyrepseq
        from fractions import Fraction
        seqs = [inputs[f"s{i}"] for i in range(len(shape))]
        table = {}
        for i in range(len(seqs)):
            for j in range(i + 1, len(seqs)):
                v = inputs[f"cd_{i}_{j}"]
                v = float(Fraction(v["frac"][0], v["frac"][1])) if isinstance(v, dict) else float(v)
                table[(seqs[i], seqs[j])] = table[(seqs[j], seqs[i])] = v
        cd = lambda a, b: 0.0 if a == b else table[(a, b)]
        got = getattr(pyrepseq, engine)(list(seqs), max_edits=k, custom_distance=cd, output_type=fmt)
        if fmt == "coo_matrix":
            if not scipy.sparse.issparse(got):
                return False, "not sparse"
            got = got.toarray()
        want = np.zeros((len(seqs), len(seqs)))
        for q, a in enumerate(seqs):
            for r, b in enumerate(seqs):
                if q != r and hc.lev(a, b) <= k:
                    want[r, q] = cd(a, b)
        ok = isinstance(got, np.ndarray) and got.shape == want.shape and bool(np.allclose(got, want, atol=1e-12, rtol=0))
        return ok, f"{engine}({seqs!r}, max_edits={k}, custom_distance=<table {table}>, output_type={fmt!r}): got {np.asarray(got).tolist()} want {want.tolist()}"
    return replay


# ------------------------------------------------------------------ (b) containers
def _body_container(engine, shape, k, container):
    def body():
        import pyrepseq
        from vlib import sym, symops as so
        from models import np_model, pd_model
        L = _letters(engine)
        # NumPy's fixed-width unicode dtype cannot represent trailing NUL characters (np.array(['a\x00'])[0] == 'a'):
        # a representational limit of the container, not of pyrepseq -> code point 0 is outside the array domain.
        lo = 1 if container == "array" else 0
        seqs = [sym.sym_str(f"s{i}", n, lo=lo, among=L) for i, n in enumerate(shape)]
        if container == "tuple":
            arg = tuple(seqs)
        elif container == "array":
            arg = np_model.array(seqs)
        elif container == "series_int":
            labels = [sym.sym_int(f"lab{i}", -3, 3) for i in range(len(seqs))]
            for i in range(len(labels)):
                for j in range(i):
                    sym.assume(labels[i] != labels[j])
            arg = pd_model.Series(seqs, index=labels)
        elif container == "series_str":
            arg = pd_model.Series(seqs, index=[chr(ord("a") + len(seqs) - i) for i in range(len(seqs))])
        else:
            arg = list(seqs)
        got = getattr(pyrepseq, engine)(arg, max_edits=k)
        cache = {}

        def dist(q, r):
            key = (min(q, r), max(q, r))
            if key not in cache:
                cache[key] = hc.lev_term(seqs[key[0]], seqs[key[1]])
            return cache[key]
        ok = hc.exact_triplets(got, len(seqs), len(seqs), dist, k, self_mode=True)
        return ok, (lambda: f"{engine}({container}) returned {_realize(list(got))}")
    return body


def _replay_container(engine, shape, k, container):
    def replay(inputs):
        import numpy as np
        import pandas as pd
        import pyrepseq
        seqs = [inputs[f"s{i}"] for i in range(len(shape))]
        if container == "tuple":
            arg = tuple(seqs)
        elif container == "array":
            arg = np.array(seqs)
        elif container == "series_int":
            arg = pd.Series(seqs, index=[inputs[f"lab{i}"] for i in range(len(seqs))])
        elif container == "series_str":
            arg = pd.Series(seqs, index=[chr(ord("a") + len(seqs) - i) for i in range(len(seqs))])
        else:
            arg = list(seqs)
        got = getattr(pyrepseq, engine)(arg, max_edits=k)
        ok, detail = hc.compare_triplets(got, hc.want_triplets(seqs, seqs, hc.lev, k, True))
        return ok, f"{engine}({arg!r}, max_edits={k}): {detail}"
    return replay


# ------------------------------------------------------------------ (c) invalid arguments
INVALID = {
    "empty": lambda S: dict(seqs=[]),
    "elem_int": lambda S: dict(seqs=["AC", 3]),
    "elem_none": lambda S: dict(seqs=[None, "AC"]),
    "elem_bytes": lambda S: dict(seqs=["AC", b"AC"]),
    "elem_list": lambda S: dict(seqs=[["A"], "AC"]),
    "max_edits_nonpos": lambda S: dict(max_edits=S.sym_int("max_edits", -3, 0)),
    "max_edits_float": lambda S: dict(max_edits=1.0),
    "max_edits_frac": lambda S: dict(max_edits=1.5),
    "max_edits_str": lambda S: dict(max_edits="1"),
    "max_edits_none": lambda S: dict(max_edits=None),
    "n_cpu_nonpos": lambda S: dict(n_cpu=S.sym_int("n_cpu", -3, 0)),
    "n_cpu_float": lambda S: dict(n_cpu=2.0),
    "n_cpu_none": lambda S: dict(n_cpu=None),
    "max_returns_nonpos": lambda S: dict(max_returns=S.sym_int("max_returns", -3, 0)),
    "output_sym": lambda S: dict(output_type=S.sym_str("output_type", 3)),
    "output_empty": lambda S: dict(output_type=""),
    "output_case": lambda S: dict(output_type="Triplets"),
    "output_near": lambda S: dict(output_type="coo"),
    "output_none": lambda S: dict(output_type=None),
    "seqs2_elem_int": lambda S: dict(seqs2=["AC", 7]),
}


def _invalid_kwargs(kind, inputs=None):
    class Concrete:
        @staticmethod
        def sym_int(name, lo, hi):
            return inputs[name]

        @staticmethod
        def sym_str(name, n):
            return inputs[name]
    if inputs is None:
        from vlib import sym
        return INVALID[kind](sym)
    return INVALID[kind](Concrete)


def _body_invalid(engine, kind):
    def body():
        import pyrepseq
        kw = dict(seqs=["AC", "AA"], max_edits=1)
        kw.update(_invalid_kwargs(kind))
        seqs = kw.pop("seqs")
        try:
            got = getattr(pyrepseq, engine)(seqs, **kw)
        except Exception:  # any error is a rejection
            return True
        return False, (lambda: f"{engine} accepted invalid argument class {kind} and returned {_realize(got)}")
    return body


def _replay_invalid(engine, kind):
    def replay(inputs):
        import pyrepseq
        kw = dict(seqs=["AC", "AA"], max_edits=1)
        kw.update(_invalid_kwargs(kind, inputs))
        seqs = kw.pop("seqs")
        try:
            got = getattr(pyrepseq, engine)(seqs, **kw)
        except Exception:
            return True, ""
        return False, f"{engine}({seqs!r}, {kw}) returned {got!r} instead of raising"
    return replay


MODELS = ("rf", "np", "sp", "mp", "pd")


def _sh(s):
    return ",".join(map(str, s))


def _probe_formats(n, fmt, engine):
    def run():
        import numpy as np
        import pyrepseq
        seqs, planted = hc.scale_case(n, plant=(0, 255, 256, -1) if n < 65536 else (0, 255, 256, 65535, 65536, -1))
        got = getattr(pyrepseq, engine)(list(seqs), max_edits=1, output_type=fmt)
        want = hc.scale_self_expected(planted)
        N = len(seqs)
        if fmt == "coo_matrix":
            cells = sorted(zip(map(int, got.row), map(int, got.col), map(int, got.data)))
            ok = got.shape == (N, N) and cells == sorted(want)
            return ok, f"[scale probe] {engine}(output_type='coo_matrix') on {N} sequences: shape {got.shape}, cells {cells[:14]}, expected {sorted(want)}"
        dense = np.zeros((N, N))
        for i, j, d in want:
            dense[i, j] = d
        ok = isinstance(got, np.ndarray) and got.shape == (N, N) and bool((np.asarray(got, dtype=float) == dense).all())
        return ok, f"[scale probe] {engine}(output_type='ndarray') on {N} sequences: shape {getattr(got, 'shape', None)}, non-zero cells {np.argwhere(np.asarray(got) != 0).tolist()[:14]}, expected {sorted(want)}"
    return run


def conditions(tier):
    out = []
    for engine in ENGINES:
        for fmt in ("coo_matrix", "ndarray"):
            for shape, k in [((2, 1), 1), ((2, 2), 2), ((1, 1, 1), 1)]:
                if engine == "nearest_neighbor" and shape != (2, 2):
                    continue
                out.append(Condition(f"C10/fmt/{engine}/{fmt}/len={_sh(shape)}/k={k}", _body_fmt(engine, shape, None, k, fmt),
                                     _replay_fmt(engine, shape, None, k, fmt), budget=200, models=MODELS, setup=_setup(engine),
                                     bounds=f"{engine} output_type={fmt}, lengths {shape}, max_edits={k}"))
        if engine in ("nearest_neighbor", "symdel"):
            for fmt in ("coo_matrix", "ndarray"):
                for rs, qs in [((2,), (1, 2)), ((2, 1, 1), (2,)), ((1, 1), (1, 1, 1))]:      # incl. more queries than references (a wide matrix)
                    out.append(Condition(f"C10/fmt/{engine}/{fmt}/ref={_sh(rs)}/qry={_sh(qs)}/k=1", _body_fmt(engine, rs, qs, 1, fmt),
                                         _replay_fmt(engine, rs, qs, 1, fmt), budget=200, models=MODELS,
                                         bounds=f"{engine} two-collection output_type={fmt}, refs {rs}, queries {qs}"))
    for engine in ("symdel", "kdtree", "hash_based"):
        for fmt in ("coo_matrix", "ndarray"):
            out.append(Condition(f"C10/fmt-custom/{engine}/{fmt}/len=2,1/k=1", _body_fmt_custom(engine, (2, 1), 1, fmt),
                                 _replay_fmt_custom(engine, (2, 1), 1, fmt), budget=200, models=MODELS, setup=_setup(engine),
                                 bounds=f"{engine} output_type={fmt} with an arbitrary real-valued custom distance"))
    for engine in ("symdel", "hash_based", "kdtree", "nearest_neighbor"):
        for container in ("tuple", "array", "series_int", "series_str"):
            shapes = [(2, 1, 1)] if engine != "nearest_neighbor" else [(2, 1)]
            for shape in shapes:
                out.append(Condition(f"C10/container/{engine}/{container}/len={_sh(shape)}", _body_container(engine, shape, 1, container),
                                     _replay_container(engine, shape, 1, container), budget=300, models=MODELS, setup=_setup(engine),
                                     bounds=f"{engine} on a {container} of strings of lengths {shape}, max_edits=1"))
    for engine in ENGINES:
        for kind in INVALID:
            if kind.startswith("seqs2") and engine in ("hash_based", "kdtree"):
                continue
            out.append(Condition(f"C10/invalid/{engine}/{kind}", _body_invalid(engine, kind), _replay_invalid(engine, kind),
                                 budget=60, models=MODELS, bounds=f"{engine} with invalid argument class {kind}"))
    if tier == "thorough":
        for engine in ENGINES:
            for fmt in ("coo_matrix", "ndarray"):
                out.append(Condition(f"C10/fmt/{engine}/{fmt}/len=2,2,1/k=2", _body_fmt(engine, (2, 2, 1), None, 2, fmt),
                                     _replay_fmt(engine, (2, 2, 1), None, 2, fmt), budget=1800, models=MODELS, setup=_setup(engine),
                                     bounds=f"{engine} output_type={fmt}, lengths (2,2,1), max_edits=2"))
            for container in ("array", "series_int"):
                out.append(Condition(f"C10/container/{engine}/{container}/len=2,2,1,1", _body_container(engine, (2, 2, 1, 1), 1, container),
                                     _replay_container(engine, (2, 2, 1, 1), 1, container), budget=1800, models=MODELS, setup=_setup(engine),
                                     bounds=f"{engine} on a {container} of 4 strings"))
    for engine in ("nearest_neighbor", "kdtree", "hash_based"):
        out.append(hc.probe_condition(f"C10/probe/{engine}/coo_matrix/70000-sequences", f"{engine}(output_type='coo_matrix') on 70 006 sequences: shape and stored cells",
                                      _probe_formats(70000, "coo_matrix", engine)))
        out.append(hc.probe_condition(f"C10/probe/{engine}/ndarray/300-sequences", f"{engine}(output_type='ndarray') on 304 sequences: every cell",
                                      _probe_formats(300, "ndarray", engine)))
    return out
