"""C09 - TCR Levenshtein metrics are the stated weighted sum over chains and CDR loops.

Real code: pyrepseq.metric.tcr_metric.tcr_levenshtein (all six classes, TcrLevenshtein.calc_cdist_matrix, _expand_v_gene_cdrs,
_get_cdrs_from_v_genes, _get_cdr1_from_v_gene_if_possible, _get_columns_to_compare, _calc_cdist_matrix_for_column, calc_pdist_vector)
and tcr_metric.TcrMetric validation (is_in_standard_format)."""
from vlib.rt import Condition
from harness.C08 import wlev_term, wlev

PROPERTY = "C09"
BOUNDS = ("anchor / comparison tables of 1-2 rows with SYMBOLIC index labels (duplicates allowed); CDR3 strings free (length 0-2); V allele "
          "per row a symbolic choice between two tokens whose CDR1/CDR2 loops are free strings (length <= 1) and whose CDR1/CDR2 entries may "
          "be absent (symbolic); edit weights symbolic 1..3; chain and loop weights pairwise distinct primes (any swap is observable) and, in "
          "dedicated conditions, symbolic 1..3; all six metric classes; calc_pdist_vector on 2-3 rows")
OUTSIDE = ["the content of tidytcells' gene reference (tr.get_aa_sequence is a symbolic dictionary)", "tables with more than 2-3 rows",
           "rapidfuzz internals"]
ASSUMPTIONS = ["rapidfuzz process.cdist / Levenshtein.distance(weights=) contracts", "pandas subset model (copy, attribute / list-key column "
               "assignment, Series.map)", "scipy squareform contract", "CrossHair + plugin + z3"]
M = ("rf", "np", "sp", "pd", "misc")

CLASSES = {
    "AlphaCdr3Levenshtein": (("A",), ("3",), ()),
    "BetaCdr3Levenshtein": (("B",), ("3",), ()),
    "Cdr3Levenshtein": (("A", "B"), ("3",), ("alpha_weight", "beta_weight")),
    "AlphaCdrLevenshtein": (("A",), ("1", "2", "3"), ("cdr1_weight", "cdr2_weight", "cdr3_weight")),
    "BetaCdrLevenshtein": (("B",), ("1", "2", "3"), ("cdr1_weight", "cdr2_weight", "cdr3_weight")),
    "CdrLevenshtein": (("A", "B"), ("1", "2", "3"), ("alpha_weight", "beta_weight", "cdr1_weight", "cdr2_weight", "cdr3_weight")),
}
PRIMES = dict(alpha_weight=2, beta_weight=3, cdr1_weight=5, cdr2_weight=7, cdr3_weight=11)


def _realize(x):
    from crosshair.core import deep_realize
    try:
        return repr(deep_realize(x))
    except Exception:  # noqa
        return "<unrealisable>"


PRESENT = {("A", 0): ("CDR1-IMGT", "CDR2-IMGT"), ("A", 1): ("CDR2-IMGT",), ("B", 0): ("CDR1-IMGT", "CDR2-IMGT"), ("B", 1): ("CDR1-IMGT",)}


def _gene_table(sym):
    """two V alleles per chain; loops are free strings; allele 1 lacks one loop (CDR1 on alpha, CDR2 on beta) - the
    'allele has no such loop' case of the statement.  The presence pattern is concrete, the loop contents symbolic."""
    table = {}
    for chain in "AB":
        for g in (0, 1):
            entry = {}
            for loop in ("CDR1-IMGT", "CDR2-IMGT"):
                present = loop in PRESENT[(chain, g)]
                sym.register(f"TR{chain}V{g}_{loop}_present", "const", present)
                s = sym.sym_str(f"TR{chain}V{g}_{loop}", 1, lo=1)
                if present:
                    entry[loop] = s
            entry["FR1-IMGT"] = "XXXX"
            table[f"TR{chain}V{g}*01"] = entry
    return table


def _make_frame(sym, prefix, nrows, cdr3_len, table, free_genes="AB"):
    from models import pd_model
    cols = {"TRAV": [], "CDR3A": [], "TRBV": [], "CDR3B": []}
    loops = []          # per row: {"1A": str, "2A": str, "3A": str, ...}
    for r in range(nrows):
        row = {}
        for chain in "AB":
            if chain in free_genes:
                g = 0 if sym.sym_int(f"{prefix}{r}_TR{chain}V", 0, 1) == 0 else 1
            else:       # the V allele of this chain cannot influence the metric under test: fixed (still recorded for the replay)
                g = r % 2
                sym.register(f"{prefix}{r}_TR{chain}V", "const", g)
            gene = f"TR{chain}V{g}*01"
            cols[f"TR{chain}V"].append(gene)
            c3 = sym.sym_str(f"{prefix}{r}_CDR3{chain}", cdr3_len)
            cols[f"CDR3{chain}"].append(c3)
            row["3" + chain] = c3
            row["1" + chain] = table[gene].get("CDR1-IMGT", "")
            row["2" + chain] = table[gene].get("CDR2-IMGT", "")
        loops.append(row)
    index = [sym.sym_int(f"{prefix}{r}_label", -2, 2) for r in range(nrows)]
    return pd_model.DataFrame(cols, index=index), loops


def _weights(sym, cls, sym_chain):
    chains, cdrs, names = CLASSES[cls]
    kw = {w: sym.sym_int(w, 1, 3) for w in ("insertion_weight", "deletion_weight", "substitution_weight")}
    for n in names:
        kw[n] = sym.sym_int(n, 1, 3) if sym_chain else PRIMES[n]
    return kw


def _expected(so, cls, kw, la, lb):
    chains, cdrs, _ = CLASSES[cls]
    total = 0
    for chain in chains:
        wc = kw.get("alpha_weight" if chain == "A" else "beta_weight", 1)
        for loop in cdrs:
            wl = kw.get(f"cdr{loop}_weight", 1)
            d = wlev_term(la[loop + chain], lb[loop + chain], kw["insertion_weight"], kw["deletion_weight"], kw["substitution_weight"])
            total = so.add(total, so.mul(so.mul(wc, wl), d))
    return total


def _snapshot(df):
    return (list(df._names), list(df._index), {n: list(df._cols[n]) for n in df._names})


def _unchanged(df, snap):
    names, index, cols = snap
    return (df._names == names and len(df._index) == len(index) and all(a is b for a, b in zip(df._index, index))
            and all(len(df._cols[n]) == len(cols[n]) and all(a is b for a, b in zip(df._cols[n], cols[n])) for n in names))


def _scramble(df, restore=None):
    """edit the caller's table IN PLACE (same object): other V alleles and CDR3s, or back to the given columns"""
    cols = ("TRAV", "CDR3A", "TRBV", "CDR3B")
    if restore is not None:
        for c in cols:
            df[c] = list(restore[c])
        return None
    keep = {c: list(df[c]) for c in cols}
    for c in cols:
        vals = list(df[c])
        df[c] = ([("TRAV1*01" if v == "TRAV0*01" else "TRAV0*01") if c == "TRAV" else ("TRBV1*01" if v == "TRBV0*01" else "TRBV0*01") for v in vals]
                 if c.startswith("TR") else ["QQ" for _ in vals])
    return keep


def _body_cdist(cls, na, nb, cdr3_len, sym_chain, prior=False):
    def body():
        from pyrepseq.metric import tcr_metric
        from models import misc_model
        from models.np_model import NDArray
        from vlib import sym, symops as so
        table = _gene_table(sym) if CLASSES[cls][1] != ("3",) else {f"TR{c}V{g}*01": {} for c in "AB" for g in (0, 1)}
        misc_model.TR_SEQ["table"] = lambda gene: dict(table[gene])
        fg = "".join(CLASSES[cls][0]) if CLASSES[cls][1] != ("3",) else ""
        A, la = _make_frame(sym, "a", na, cdr3_len, table, fg)
        B, lb = _make_frame(sym, "b", nb, cdr3_len, table, fg)
        sa, sb = _snapshot(A), _snapshot(B)
        kw = _weights(sym, cls, sym_chain)
        metric = getattr(tcr_metric, cls)(**kw)
        if prior:
            # the SAME metric object has seen the SAME table objects before, with other contents (edited in place since): the value depends on
            # what the rows hold now
            ka, kb = _scramble(A), _scramble(B)
            metric.calc_cdist_matrix(A, B)
            _scramble(A, ka)
            _scramble(B, kb)
            sa, sb = _snapshot(A), _snapshot(B)
        got = metric.calc_cdist_matrix(A, B)
        if not isinstance(got, NDArray) or got.shape != (na, nb):
            return False, f"result shape {getattr(got, 'shape', None)}"
        if not (_unchanged(A, sa) and _unchanged(B, sb)):
            return False, "the caller's table was modified"
        from models import rf_model
        narrowing = [k_ for name, k_ in rf_model.CALLS if name == "cdist" and (k_["dtype"] is not None or k_["score_cutoff"] is not None)]
        if narrowing:       # weighted sums easily exceed 255: a narrow result dtype would wrap silently
            return False, f"rapidfuzz.process.cdist called with narrowing options {narrowing}"
        conds = [so.eq(got[i, j], _expected(so, cls, kw, la[i], lb[j])) for i in range(na) for j in range(nb)]
        return so.b_and(*conds), (lambda: f"{cls} cdist = {_realize(got.tolist())}")
    return body


def _concrete(inputs, prefix, nrows):
    import pandas as pd
    cols = {"TRAV": [], "CDR3A": [], "TRBV": [], "CDR3B": []}
    for r in range(nrows):
        for chain in "AB":
            cols[f"TR{chain}V"].append(f"TR{chain}V{int(inputs[f'{prefix}{r}_TR{chain}V'])}*01")
            cols[f"CDR3{chain}"].append(inputs[f"{prefix}{r}_CDR3{chain}"])
    return pd.DataFrame(cols, index=[int(inputs[f"{prefix}{r}_label"]) for r in range(nrows)])


def _patch_tt(inputs, scope_all):
    """real stack, but the gene reference is replaced by the witness's loops (tidytcells' reference data is outside the claim)"""
    from pyrepseq.metric.tcr_metric import tcr_levenshtein as tl
    table = {}
    for chain in "AB":
        for g in (0, 1):
            e = {"FR1-IMGT": "XXXX"}
            for loop in ("CDR1-IMGT", "CDR2-IMGT"):
                if scope_all and inputs.get(f"TR{chain}V{g}_{loop}_present"):
                    e[loop] = inputs[f"TR{chain}V{g}_{loop}"]
            table[f"TR{chain}V{g}*01"] = e

    class FakeTr:
        @staticmethod
        def get_aa_sequence(gene, *a, **k):
            return dict(table[gene])
    old = tl.tr
    tl.tr = FakeTr
    return table, (lambda: setattr(tl, "tr", old))


def _replay_cdist(cls, na, nb, sym_chain, prior=False):
    def replay(inputs):
        import numpy as np
        from pyrepseq.metric import tcr_metric
        chains, cdrs, names = CLASSES[cls]
        table, restore = _patch_tt(inputs, cdrs != ("3",))
        try:
            A, B = _concrete(inputs, "a", na), _concrete(inputs, "b", nb)
            A0, B0 = A.copy(deep=True), B.copy(deep=True)
            kw = {w: int(inputs[w]) for w in ("insertion_weight", "deletion_weight", "substitution_weight")}
            for n in names:
                kw[n] = int(inputs[n]) if sym_chain else PRIMES[n]
            metric_obj = getattr(tcr_metric, cls)(**kw)
            if prior:
                ka, kb = _scramble(A), _scramble(B)
                metric_obj.calc_cdist_matrix(A, B)
                _scramble(A, ka)
                _scramble(B, kb)
            got = metric_obj.calc_cdist_matrix(A, B)
        finally:
            restore()
        if not (A.equals(A0) and B.equals(B0)):
            return False, "caller's table modified"

        def loops(df, r):
            out = {}
            for chain in "AB":
                gene = df[f"TR{chain}V"].iloc[r]
                out["3" + chain] = df[f"CDR3{chain}"].iloc[r]
                out["1" + chain] = table[gene].get("CDR1-IMGT", "")
                out["2" + chain] = table[gene].get("CDR2-IMGT", "")
            return out
        want = [[sum(kw.get("alpha_weight" if ch == "A" else "beta_weight", 1) * kw.get(f"cdr{lp}_weight", 1)
                     * wlev(loops(A, i)[lp + ch], loops(B, j)[lp + ch], kw["insertion_weight"], kw["deletion_weight"], kw["substitution_weight"])
                     for ch in chains for lp in cdrs) for j in range(nb)] for i in range(na)]
        if np.asarray(got).tolist() != want:
            return False, f"{cls}({kw}) cdist = {np.asarray(got).tolist()}, expected {want}; A={A.to_dict('list')} B={B.to_dict('list')} genes={table}"
        # extra columns are not part of a row's TCR content: tables that already carry (stale / foreign) loop annotations and an unrelated
        # column must give the same matrix - CDR1/CDR2 are those of the row's V allele, whatever else the table holds
        table, restore = _patch_tt(inputs, cdrs != ("3",))
        try:
            AX, BX = A.copy(deep=True), B.copy(deep=True)
            for X, fill in ((AX, "QQQQQ"), (BX, "")):
                for col in ("CDR1A", "CDR2A", "CDR1B", "CDR2B"):
                    X[col] = [fill + "W" * (r % 2) for r in range(len(X))]
                X["note"] = list(range(len(X)))
            gx = getattr(tcr_metric, cls)(**kw).calc_cdist_matrix(AX, BX)
        finally:
            restore()
        if np.asarray(gx).tolist() != want:
            return False, (f"{cls}({kw}) on the same rows carrying stale CDR1A/CDR2A/CDR1B/CDR2B columns and an unrelated column = {np.asarray(gx).tolist()}, "
                           f"expected {want} (loops of the row's V allele); A={A.to_dict('list')} B={B.to_dict('list')} genes={table}")
        # real-library probe for the argument-record part: weights large enough that one edit exceeds 255 must not wrap
        table, restore = _patch_tt(inputs, cdrs != ("3",))
        try:
            big = dict(insertion_weight=90, deletion_weight=100, substitution_weight=110)
            big.update({n: 3 for n in names})
            P = A.copy()
            for ch in "AB":
                P[f"CDR3{ch}"] = ["CASSLG" + "AQ"[r % 2] for r in range(len(P))]
            Q = P.iloc[::-1].reset_index(drop=True)
            pg = getattr(tcr_metric, cls)(**big).calc_cdist_matrix(P, Q)
        finally:
            restore()
        pw = [[sum(big.get("alpha_weight" if ch == "A" else "beta_weight", 1) * big.get(f"cdr{lp}_weight", 1)
                   * wlev(loops(P, i)[lp + ch], loops(Q, j)[lp + ch], 90, 100, 110) for ch in chains for lp in cdrs)
               for j in range(len(Q))] for i in range(len(P))]
        return np.asarray(pg).tolist() == pw, f"{cls}({big}) on CDR3s {list(P['CDR3A'])} vs {list(Q['CDR3A'])}: {np.asarray(pg).tolist()}, expected {pw} (values above 255 must not wrap)"
    return replay


def _body_pdist(cls, n):
    def body():
        from pyrepseq.metric import tcr_metric
        from models import misc_model
        from vlib import sym, symops as so
        table = _gene_table(sym) if CLASSES[cls][1] != ("3",) else {f"TR{c}V{g}*01": {} for c in "AB" for g in (0, 1)}
        misc_model.TR_SEQ["table"] = lambda gene: dict(table[gene])
        fg = "".join(CLASSES[cls][0]) if CLASSES[cls][1] != ("3",) else ""
        A, la = _make_frame(sym, "a", n, 1, table, fg)
        kw = _weights(sym, cls, False)
        vec = getattr(tcr_metric, cls)(**kw).calc_pdist_vector(A)
        if vec.shape != (n * (n - 1) // 2,):
            return False, f"shape {vec.shape}"
        conds = []
        for i in range(n):
            for j in range(i + 1, n):
                conds.append(so.eq(vec[n * i + j - ((i + 2) * (i + 1)) // 2], _expected(so, cls, kw, la[i], la[j])))
        return so.b_and(*conds), (lambda: f"pdist = {_realize(vec.tolist())}")
    return body


def _replay_pdist(cls, n):
    def replay(inputs):
        import numpy as np
        from scipy.spatial.distance import squareform
        from pyrepseq.metric import tcr_metric
        chains, cdrs, names = CLASSES[cls]
        table, restore = _patch_tt(inputs, cdrs != ("3",))
        try:
            A = _concrete(inputs, "a", n)
            kw = {w: int(inputs[w]) for w in ("insertion_weight", "deletion_weight", "substitution_weight")}
            kw.update({k: PRIMES[k] for k in names})
            m = getattr(tcr_metric, cls)(**kw)
            vec, mat = m.calc_pdist_vector(A), m.calc_cdist_matrix(A, A)
        finally:
            restore()
        want = [mat[i, j] for i in range(n) for j in range(i + 1, n)]
        return list(vec) == want, f"calc_pdist_vector = {list(vec)}, upper triangle of cdist = {want}"
    return replay


def _body_reject(cls, kind):
    def body():
        from pyrepseq.metric import tcr_metric
        from models import pd_model
        good = pd_model.DataFrame({"CDR3A": ["CA"], "CDR3B": ["CA"], "TRAV": ["TRAV0*01"], "TRBV": ["TRBV0*01"]})
        bad = {"list": ["CA", "CF"], "none": None, "no_tcr_column": pd_model.DataFrame({"x": [1], "Epitope": ["AAA"]}), "str": "CASF",
               "series": pd_model.Series(["CA"])}[kind]
        m = getattr(tcr_metric, cls)()
        for call in (lambda: m.calc_cdist_matrix(bad, good), lambda: m.calc_cdist_matrix(good, bad), lambda: m.calc_pdist_vector(bad)):
            try:
                call()
            except ValueError:
                continue
            return False, f"{cls} accepted a non-TCR-table input of kind {kind}"
        return True
    return body


def _replay_reject(cls, kind):
    def replay(inputs):
        import pandas as pd
        from pyrepseq.metric import tcr_metric
        good = pd.DataFrame({"CDR3A": ["CA"], "CDR3B": ["CA"], "TRAV": ["TRAV1-1*01"], "TRBV": ["TRBV2*01"]})
        bad = {"list": ["CA", "CF"], "none": None, "no_tcr_column": pd.DataFrame({"x": [1], "Epitope": ["AAA"]}), "str": "CASF",
               "series": pd.Series(["CA"])}[kind]
        m = getattr(tcr_metric, cls)()
        for call in (lambda: m.calc_cdist_matrix(bad, good), lambda: m.calc_cdist_matrix(good, bad), lambda: m.calc_pdist_vector(bad)):
            try:
                call()
            except ValueError:
                continue
            except Exception as e:
                return False, f"{cls} on {kind}: raised {type(e).__name__} instead of ValueError"
            return False, f"{cls} accepted {kind}"
        return True, ""
    return replay


def conditions(tier):
    out = []
    T = tier == "thorough"
    for cls in CLASSES:
        allscope = CLASSES[cls][1] != ("3",)
        shapes = [(1, 1, 1), (2, 1, 1)] if allscope else [(1, 1, 2), (2, 2, 1), (1, 2, 0), (2, 1, 1)]
        if T:
            shapes += [(2, 2, 1)] if allscope else [(2, 2, 2)]
        for na, nb, l3 in shapes:
            out.append(Condition(f"C09/{cls}/cdist/{na}x{nb}/cdr3len={l3}", _body_cdist(cls, na, nb, l3, False), _replay_cdist(cls, na, nb, False),
                                 budget=900 if not T else 3600, models=M,
                                 bounds=f"{cls}: {na} x {nb} rows, CDR3 length {l3}, symbolic edit weights, prime chain/loop weights, symbolic index labels"))
        if CLASSES[cls][2]:
            if CLASSES[cls][1] != ("3",):
                pa = 1 if cls == "CdrLevenshtein" else 2
                out.append(Condition(f"C09/{cls}/cdist/{pa}x1/same-objects-edited-in-place", _body_cdist(cls, pa, 1, 1, False, True), _replay_cdist(cls, pa, 1, False, True),
                                     budget=400, models=M, bounds=f"{cls}: {pa} x 1 rows; the same metric object was applied before to the same table objects holding other alleles and CDR3s"))
            out.append(Condition(f"C09/{cls}/cdist/1x1/symbolic-chain-loop-weights", _body_cdist(cls, 1, 1, 1, True), _replay_cdist(cls, 1, 1, True),
                                 budget=900, models=M, bounds=f"{cls}: 1 x 1 rows, all weights symbolic 1..3"))
        out.append(Condition(f"C09/{cls}/pdist/n=2", _body_pdist(cls, 2), _replay_pdist(cls, 2), budget=900, models=M,
                             bounds=f"{cls}: condensed vector for 2 rows"))
        for kind in ("list", "none", "no_tcr_column", "str", "series"):
            out.append(Condition(f"C09/{cls}/reject/{kind}", _body_reject(cls, kind), _replay_reject(cls, kind), budget=60, models=M,
                                 bounds=f"{cls} on a non-table input ({kind})"))
    out.append(Condition("C09/Cdr3Levenshtein/pdist/n=3", _body_pdist("Cdr3Levenshtein", 3), _replay_pdist("Cdr3Levenshtein", 3), budget=900,
                         models=M, bounds="condensed vector for 3 rows"))
    return out
