"""C14 (second part) - nearest_neighbor_tcrdist and the bundled V-gene distance tables.  Loaded by harness/C14.py."""
from vlib.rt import Condition
from harness import common as hc

M = ("rf", "np", "sp", "mp", "pd", "misc")
ALLELES = {"beta": ["TRBV1*01", "TRBV10-1*01", "TRBV9*01"], "alpha": ["TRAV1-1*01", "TRAV12-1*01", "TRAV41*01"]}


def _realize(x):
    from crosshair.core import deep_realize
    try:
        return repr(deep_realize(x))
    except Exception:  # noqa
        return "<unrealisable>"


def _setup():
    from pyrepseq import nn
    from models import pw_model
    nn.pwseqdist = pw_model.SymbolicPw
    from vlib.xh_state import STATE
    STATE.path_hooks.append(pw_model.reset)


def _vtable(chain):
    import os
    import pandas as pd
    import pyrepseq
    path = os.path.join(os.path.dirname(pyrepseq.__file__), "data", f"vdists_{chain}.csv")
    return pd.read_csv(path, index_col=0)


_VT = {}


def _v(chain, a, b):
    from crosshair.tracers import NoTracing
    with NoTracing():
        if chain not in _VT:
            _VT[chain] = _vtable(chain)
        return int(_VT[chain].loc[a, b])


CUSTOM_KW = dict(ntrim=2, ctrim=1, gap_penalty=7)       # caller-supplied TCRdist parameters: override the documented defaults, also for the trimming


def _body_tcr(nrows, lens, chain, trimmed, k, custom_kw=False):
    def body():
        from pyrepseq import nn
        from models import pd_model, pw_model
        from vlib import sym, symops as so
        chains = ["beta", "alpha"] if chain == "both" else [chain]
        cols, genes, cdr3 = {}, {}, {}
        for ch in chains:
            L = ch[0].upper()
            cdr3[ch] = [sym.sym_str(f"cdr3{L}{r}", lens[r], lo=1) for r in range(nrows)]
            genes[ch] = []
            for r in range(nrows):
                g = sym.sym_int(f"v{L}{r}", 0, 2)
                genes[ch].append(ALLELES[ch][0] if g == 0 else ALLELES[ch][1] if g == 1 else ALLELES[ch][2])
            cols[f"CDR3{L}"], cols[f"TR{L}V"] = list(cdr3[ch]), list(genes[ch])
        df = pd_model.DataFrame(cols, index=[20 + r for r in range(nrows)])
        snap = hc.shallow_snapshot(df)
        max_tcrdist = sym.sym_int("max_tcrdist", 0, 200)
        ckw = dict(CUSTOM_KW) if custom_kw else None
        got = (nn.nearest_neighbor_tcrdist(df, chain=chain, max_edits=k, edit_on_trimmed=trimmed, max_tcrdist=max_tcrdist, tcrdist_kwargs=ckw) if custom_kw
               else nn.nearest_neighbor_tcrdist(df, chain=chain, max_edits=k, edit_on_trimmed=trimmed, max_tcrdist=max_tcrdist))
        if not hc.unchanged(df, snap):
            return False, "input table modified"
        if custom_kw and ckw != CUSTOM_KW:
            return False, f"the caller's tcrdist_kwargs were modified: {ckw}"
        nt, ct = (CUSTOM_KW["ntrim"], CUSTOM_KW["ctrim"]) if custom_kw else (3, 2)
        first = chains[0]
        search = [s[nt:len(s) - ct] for s in cdr3[first]] if trimmed else cdr3[first]
        rows = got.tolist() if hasattr(got, "tolist") else list(got)
        seen = {}
        for row in rows:
            if len(row) != 3:
                return False, f"row {row!r}"
            i, j = int(row[0]), int(row[1])
            if (i, j) in seen or i == j or not (0 <= i < nrows and 0 <= j < nrows):
                return False, (lambda: f"bad/repeated pair in {_realize(rows)}")
            seen[(i, j)] = row[2]
        # the CDR3 part: at most one recorded pwseqdist call per chain (a chain may be skipped when nothing can survive: what is reported is
        # decided by the value oracle below), on the UNtrimmed CDR3 column, with pyrepseq's documented parameters
        if seen or True:
            expect_kw = dict(use_numba=True, fixed_gappos=False, ntrim=3, ctrim=2, dist_weight=3, gap_penalty=12)
            if custom_kw:
                expect_kw.update(CUSTOM_KW)
            if pw_model.CALLS and (len(pw_model.CALLS) > len(chains) or any(c["kw"] != expect_kw or c["metric"] != "nb_vector_tcrdist" for c in pw_model.CALLS)):
                return False, f"pwseqdist called with {[(c['metric'], c['kw']) for c in pw_model.CALLS]}"
        conds = []
        for i in range(nrows):
            for j in range(nrows):
                if i == j:
                    continue
                total = 0
                for t, ch in enumerate(chains, 1):
                    key = (t, min(i, j), max(i, j))
                    if key not in pw_model.VALUES:
                        pw_model.VALUES[key] = sym.sym_int(f"pw{t}_{key[1]}_{key[2]}", 0, 60)
                    total = so.add(total, so.add(_v(ch, genes[ch][i], genes[ch][j]), pw_model.VALUES[key]))
                inside = so.b_and(so.le(hc.lev_term(search[i], search[j]), k), so.le(total, max_tcrdist))
                conds.append(so.b_and(inside, so.eq(seen[(i, j)], total)) if (i, j) in seen else so.b_not(inside))
        return so.b_and(*conds), (lambda: f"nearest_neighbor_tcrdist -> {_realize(rows)}")
    return body


def _replay_tcr(nrows, lens, chain, trimmed, k, custom_kw=False):
    def replay(inputs):
        import numpy as np
        import pandas as pd
        from pyrepseq import nn
        from models.pw_model import ConcretePw
        chains = ["beta", "alpha"] if chain == "both" else [chain]

        def cdr3_dist(tag, i, j, a, b):
            """the CDR3 distance of the witness (pwseqdist is an arbitrary non-negative distance on the solver side); the deterministic
            stand-in where the witness leaves a pair open"""
            key = f"pw{tag}_{min(i, j)}_{max(i, j)}"
            return float(int(inputs[key])) if key in inputs and i != j else float(ConcretePw.dist(a, b, **pw_kw))
        pw_kw = dict(ntrim=3, ctrim=2, dist_weight=3, gap_penalty=12)
        if custom_kw:
            pw_kw.update(CUSTOM_KW)
        seen_kw = []

        class WitnessPw:
            metrics = ConcretePw.metrics
            ncalls = 0

            @classmethod
            def apply_pairwise_sparse(cls, metric=None, seqs=None, pairs=None, **kw):
                cls.ncalls += 1
                seen_kw.append(dict(kw))
                return np.array([cdr3_dist(cls.ncalls, int(i), int(j), seqs[int(i)], seqs[int(j)]) for i, j in pairs], dtype=float)
        nn.pwseqdist = WitnessPw
        cols, genes, cdr3 = {}, {}, {}
        for ch in chains:
            L = ch[0].upper()
            cdr3[ch] = [inputs[f"cdr3{L}{r}"] for r in range(nrows)]
            genes[ch] = [ALLELES[ch][int(inputs[f"v{L}{r}"])] for r in range(nrows)]
            cols[f"CDR3{L}"], cols[f"TR{L}V"] = cdr3[ch], genes[ch]
        df = pd.DataFrame(cols, index=[20 + r for r in range(nrows)])
        before = df.copy(deep=True)
        mt = int(inputs["max_tcrdist"])
        ckw = dict(CUSTOM_KW) if custom_kw else None
        got = (nn.nearest_neighbor_tcrdist(df, chain=chain, max_edits=k, edit_on_trimmed=trimmed, max_tcrdist=mt, tcrdist_kwargs=ckw) if custom_kw
               else nn.nearest_neighbor_tcrdist(df, chain=chain, max_edits=k, edit_on_trimmed=trimmed, max_tcrdist=mt))
        want_kw = dict(use_numba=True, fixed_gappos=False, **pw_kw)
        if any(kw_ != want_kw for kw_ in seen_kw) or (custom_kw and ckw != CUSTOM_KW):
            return False, f"pwseqdist received {seen_kw}, expected {want_kw} (caller's tcrdist_kwargs afterwards: {ckw})"
        if not df.equals(before):
            return False, "input table modified"
        first = chains[0]
        search = [s[pw_kw["ntrim"]:len(s) - pw_kw["ctrim"]] for s in cdr3[first]] if trimmed else cdr3[first]
        want = set()
        for i in range(nrows):
            for j in range(nrows):
                if i != j and hc.lev(search[i], search[j]) <= k:
                    total = sum(_vtable(ch).loc[genes[ch][i], genes[ch][j]] + cdr3_dist(t + 1, i, j, cdr3[ch][i], cdr3[ch][j]) for t, ch in enumerate(chains))
                    if total <= mt:
                        want.add((i, j, float(total)))
        rows = [(int(r[0]), int(r[1]), float(r[2])) for r in np.asarray(got).reshape(-1, 3)] if len(got) else []
        ok = len(rows) == len(set(rows)) and set(rows) == want
        return ok, f"nearest_neighbor_tcrdist({cols}, chain={chain}, max_edits={k}, edit_on_trimmed={trimmed}, max_tcrdist={mt}) = {sorted(rows)} expected {sorted(want)}"
    return replay


# ---- the bundled V-gene tables: symmetric, zero diagonal (z3 over the finite table)
def _body_vtable(chain):
    def body(E):
        import z3
        t = _vtable(chain)
        n = len(t)
        if list(t.index) != list(t.columns):
            return False, "row and column labels differ"
        T = z3.Function("T_" + chain, z3.IntSort(), z3.IntSort(), z3.IntSort())
        vals = t.values
        for i in range(n):
            for j in range(n):
                E.pc.append(T(i, j) == int(vals[i, j]))
        i, j = E.int("i", 0, n - 1), E.int("j", 0, n - 1)
        return (z3.And(T(i.term, j.term) == T(j.term, i.term), z3.Implies(i.term == j.term, T(i.term, j.term) == 0)),
                f"table {chain} asymmetric or non-zero diagonal")
    return body


def _replay_vtable(chain):
    def replay(inputs):
        t = _vtable(chain)
        i, j = int(inputs["i"]), int(inputs["j"])
        ok = t.values[i, j] == t.values[j, i] and (i != j or t.values[i, j] == 0)
        return bool(ok), f"vdists_{chain}[{t.index[i]}, {t.columns[j]}] = {t.values[i, j]}, transposed {t.values[j, i]}"
    return replay


def conditions(tier):
    out = []
    T = tier == "thorough"
    cfgs = [(2, (6, 6), "beta", True, 1), (2, (5, 6), "beta", True, 2), (2, (1, 2), "beta", False, 1), (2, (6, 6), "alpha", True, 1),
            (2, (6, 6), "both", True, 1), (3, (6, 6, 5), "beta", True, 1)]
    if T:
        cfgs += [(3, (6, 7, 6), "both", True, 2), (3, (2, 2, 1), "alpha", False, 2), (3, (7, 7, 7), "beta", True, 2)]
    out.append(Condition("C14/tcrdist/rows=2/len=5,5/beta/trimmed/k=1/caller-tcrdist_kwargs", _body_tcr(2, (5, 5), "beta", True, 1, True),
                         _replay_tcr(2, (5, 5), "beta", True, 1, True), budget=600, models=M, setup=_setup,
                         bounds=f"2 rows, CDR3 length 5, chain=beta, tcrdist_kwargs={CUSTOM_KW}: parameters handed to pwseqdist and used for the trimming"))
    for nrows, lens, chain, trimmed, k in cfgs:
        out.append(Condition(f"C14/tcrdist/rows={nrows}/len={','.join(map(str, lens))}/{chain}/" + ("trimmed" if trimmed else "untrimmed") + f"/k={k}",
                             _body_tcr(nrows, lens, chain, trimmed, k), _replay_tcr(nrows, lens, chain, trimmed, k), budget=600 if not T else 3000,
                             models=M, setup=_setup,
                             bounds=f"{nrows} rows, CDR3 lengths {lens}, chain={chain}, edit_on_trimmed={trimmed}, max_edits={k}, symbolic V alleles / max_tcrdist / CDR3 distances"))
    for chain in ("alpha", "beta"):
        out.append(Condition(f"C14/vtable/{chain}", _body_vtable(chain), _replay_vtable(chain), budget=600, engine="SMT",
                             info={"query_timeout_ms": 300000}, bounds=f"bundled vdists_{chain}.csv: all index pairs"))
    return out
