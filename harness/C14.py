"""C14 - distance-filtered search keeps exactly the pairs inside both radii.

Real code: symdel/nearest_neighbor (+ seqs2), SymdelDB.lookup, hash_based -> LookupDB.lookup, kdtree -> _cal_custom_dist,
_check_common_input; nearest_neighbor_tcrdist with a stand-in for the absent optional pwseqdist package; the bundled
V-gene distance tables."""
from vlib.rt import Condition
from harness import common as hc

PROPERTY = "C14"
BOUNDS = ("2-3 strings (lengths <= 2, 3 for symdel), custom distance = one fresh non-negative symbolic real per unordered pair of "
          "distinct contents (0 on equal strings) i.e. every symmetric distance at once; max_custom_distance symbolic >= 0 or inf; "
          "max_edits 1..2; all engines + symdel's two-collection form.  TCRdist: tables of 2-3 rows, CDR3 of length 5-7 "
          "(trimmed to 0-2 free letters), V allele among 3 real names, chain alpha/beta/both, edit_on_trimmed, symbolic max_tcrdist, "
          "CDR3 TCRdist part = symbolic value per pair (stand-in for pwseqdist).  V tables: full symmetric/zero-diagonal check by z3.")
OUTSIDE = ["longer inputs", "pwseqdist's own metric (package absent; stand-in returns an arbitrary value per pair)",
           "rapidfuzz / KD-tree internals (contract models)", "IEEE rounding of custom distances (reals)"]
ASSUMPTIONS = ["custom distances are functions of the strings' content (symmetric, 0 on equal strings)",
               "reals stand in for floats", "library contract models (rapidfuzz, KDTree, NumPy/pandas subset)",
               "CrossHair + plugin + z3"]

MODELS = ("rf", "np", "sp", "mp", "pd")


def _realize(x):
    from crosshair.core import deep_realize
    try:
        return repr(deep_realize(x))
    except Exception:  # noqa
        return "<unrealisable>"


def _setup(engine, letters):
    def setup():
        import pyrepseq  # noqa
        if engine in ("hash_based", "lookupdb-history"):
            hc.set_alphabet(letters)
    return setup


def _search(engine, seqs, k, cd, kw):
    """the public entry point - or, for '<db>-history', ONE database object that has already answered the same queries with two other distance
    functions (what it returns may depend on this call's distances only)"""
    import pyrepseq
    from pyrepseq import nn
    if engine == "symdeldb-history":
        kw = dict(kw)
        qs = kw.pop("seqs2")
        db = nn.SymdelDB(seqs, k)
        db.lookup(qs)
        db.lookup(qs, custom_distance="hamming")
        return db.lookup(qs, custom_distance=cd, **kw)
    if engine == "lookupdb-history":
        kw = dict(kw)
        qs = kw.pop("seqs2")
        db = nn.LookupDB(seqs)
        db.lookup(qs, max_edits=k)
        db.lookup(qs, max_edits=k, custom_distance="hamming")
        return db.lookup(qs, max_edits=k, custom_distance=cd, **kw)
    return getattr(pyrepseq, engine)(seqs, max_edits=k, custom_distance=cd, **kw)


def _body(engine, shape, qshape, k, letters, inf_radius):
    def body():
        import pyrepseq
        from vlib import sym, symops as so
        seqs = [sym.sym_str(f"s{i}", n, among=letters) for i, n in enumerate(shape)]
        qs = seqs if qshape is None else [sym.sym_str(f"q{i}", n, among=letters) for i, n in enumerate(qshape)]
        allstr = seqs if qshape is None else seqs + qs
        cd = hc.ArbitraryDistance(allstr)
        off = 0 if qshape is None else len(seqs)
        kw = {}
        if inf_radius:
            radius = float("inf")
        else:
            radius = sym.sym_real("max_custom_distance", lo=0)
            kw["max_custom_distance"] = radius
        if qshape is not None:
            kw["seqs2"] = qs
        got = _search(engine, seqs, k, cd, kw)
        if not isinstance(got, list):
            return False, "not a list"
        lev = {}

        def dist(q, r):
            if (q, r) not in lev:
                lev[(q, r)] = hc.lev_term(qs[q], seqs[r])
            return lev[(q, r)]

        seen = {}
        for t in got:
            q, r, d = int(t[0]), int(t[1]), t[2]
            if (q, r) in seen or not (0 <= q < len(qs) and 0 <= r < len(seqs)) or (qshape is None and q == r):
                return False, (lambda: f"bad/repeated pair in {_realize(list(got))}")
            seen[(q, r)] = d
        conds = []
        for q in range(len(qs)):
            for r in range(len(seqs)):
                if qshape is None and q == r:
                    continue
                c = cd.value(off + q, r)
                inside = so.le(dist(q, r), k) if inf_radius else so.b_and(so.le(dist(q, r), k), so.le(c, radius))
                if (q, r) in seen:
                    conds.append(so.b_and(inside, so.eq(seen[(q, r)], c)))
                else:
                    conds.append(so.b_not(inside))
        return so.b_and(*conds), (lambda: f"{engine}(custom) returned {_realize(list(got))}")
    return body


def _frac(v):
    from fractions import Fraction
    if isinstance(v, dict):
        return Fraction(v["frac"][0], v["frac"][1])
    return Fraction(v)


def _replay(engine, shape, qshape, k, inf_radius):
    def replay(inputs):
        import pyrepseq
        seqs = [inputs[f"s{i}"] for i in range(len(shape))]
        qs = seqs if qshape is None else [inputs[f"q{i}"] for i in range(len(qshape))]
        allstr = seqs if qshape is None else seqs + qs
        n = len(allstr)
        table = {}
        for i in range(n):
            for j in range(i + 1, n):
                v = float(_frac(inputs[f"cd_{i}_{j}"]))
                table[(allstr[i], allstr[j])] = v
                table[(allstr[j], allstr[i])] = v

        def cd(a, b):
            return 0.0 if a == b else table[(a, b)]
        kw = {}
        radius = float("inf")
        if not inf_radius:
            radius = float(_frac(inputs["max_custom_distance"]))
            kw["max_custom_distance"] = radius
        if qshape is not None:
            kw["seqs2"] = list(qs)
        got = _search(engine, list(seqs), k, cd, kw)
        want = set()
        for q, a in enumerate(qs):
            for r, b in enumerate(seqs):
                if qshape is None and q == r:
                    continue
                if hc.lev(a, b) <= k and cd(a, b) <= radius:
                    want.add((q, r, cd(a, b)))
        g = [(int(q), int(r), float(d)) for q, r, d in got]
        ok = len(g) == len(set(g)) and set(g) == want
        return ok, (f"{engine}({seqs!r}, max_edits={k}, custom_distance=<table {table}>, {kw}): got {sorted(g)} "
                    f"want {sorted(want)}")
    return replay


def _sh(s):
    return ",".join(map(str, s))


def _mk(engine, shape, k, letters=None, qshape=None, inf_radius=False, budget=200):
    cid = (f"C14/{engine}/len={_sh(shape)}" + (f"/qry={_sh(qshape)}" if qshape is not None else "") + f"/k={k}/"
           + ("inf" if inf_radius else "radius") + f"/{letters or 'unicode'}")
    return Condition(cid, _body(engine, shape, qshape, k, letters, inf_radius), _replay(engine, shape, qshape, k, inf_radius),
                     budget=budget, models=MODELS, setup=_setup(engine, letters), excludes=(),
                     bounds=f"{engine}, lengths {shape}" + (f" vs queries {qshape}" if qshape is not None else "")
                            + f", max_edits={k}, max_custom_distance " + ("inf" if inf_radius else "symbolic >= 0")
                            + f", letters {letters or 'free Unicode'}")


def _probe_scale(engine):
    def run():
        import pyrepseq
        seqs, planted = hc.scale_case()
        calls = []

        def dist(a, b):
            calls.append(1)
            if a == b:
                return 0.0
            return 0.25 if a[0] == "A" or b[0] == "A" else 2.5        # below the radius for codes starting with A, above it otherwise
        got = getattr(pyrepseq, engine)(list(seqs), max_edits=1, custom_distance=dist, max_custom_distance=1.0)
        want = {(i, j, 0.25) for i, j, _ in hc.scale_self_expected(planted) if seqs[i][0] == "A" or seqs[j][0] == "A"}
        got = [(int(a), int(b), float(c)) for a, b, c in got]
        ok = len(got) == len(set(got)) and set(got) == want
        return ok, f"[scale probe] {engine} with a custom distance on {len(seqs)} sequences: got {sorted(got)[:14]} want {sorted(want)}"
    return run


def conditions(tier):
    out = []
    for inf in (False, True):
        for shape, k in [((1, 1), 1), ((2, 1), 1), ((2, 2), 1), ((2, 2), 2), ((1, 1, 1), 1), ((2, 1, 1), 2)]:
            out.append(_mk("symdel", shape, k, inf_radius=inf))
        out.append(_mk("nearest_neighbor", (2, 1), 1, inf_radius=inf))
        out.append(_mk("symdel", (2,), 1, qshape=(2,), inf_radius=inf))
        out.append(_mk("symdel", (2, 1), 1, qshape=(1,), inf_radius=inf))
        for shape, k in [((1, 1), 1), ((2, 1), 1), ((2, 2), 1), ((1, 1, 1), 1), ((2, 1), 2), ((2, 2, 2), 1)]:
            out.append(_mk("kdtree", shape, k, letters="AY", inf_radius=inf))
        for shape, k in [((1, 1), 1), ((2, 1), 1), ((1, 1, 1), 1), ((1, 1), 2)]:
            out.append(_mk("hash_based", shape, k, letters="AC", inf_radius=inf))
    out.append(_mk("symdeldb-history", (1, 1), 1, qshape=(1,)))
    out.append(_mk("symdeldb-history", (2, 1), 1, qshape=(1, 2), inf_radius=True))
    out.append(_mk("lookupdb-history", (1, 1), 1, letters="AC", qshape=(1,)))
    from harness import C14b
    out += C14b.conditions(tier)
    if tier == "thorough":
        for inf in (False, True):
            out.append(_mk("symdel", (3, 2), 2, inf_radius=inf, budget=1800))
            out.append(_mk("symdel", (3, 3), 1, inf_radius=inf, budget=1800))
            out.append(_mk("symdel", (2, 2, 1), 1, inf_radius=inf, budget=1800))
            out.append(_mk("symdel", (2, 2), 1, qshape=(2, 1), inf_radius=inf, budget=1800))
            out.append(_mk("kdtree", (2, 2, 1), 2, letters="ACY", inf_radius=inf, budget=1800))
            out.append(_mk("hash_based", (2, 2), 1, letters="AC", inf_radius=inf, budget=1800))
            out.append(_mk("hash_based", (2, 1), 2, letters="ACD", inf_radius=inf, budget=1800))
    for engine in ("nearest_neighbor", "kdtree", "hash_based"):
        out.append(hc.probe_condition(f"C14/probe/{engine}/custom-distance/70000-sequences",
                                      f"{engine} with a custom distance (0.25 or 2.5 by first letter, radius 1.0) on 70 006 sequences with six planted pairs",
                                      _probe_scale(engine)))
    return out
