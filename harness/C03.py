"""C03 - two-collection search returns exactly the query/reference pairs within range.

Real code: symdel(seqs, seqs2=...), nearest_neighbor(..., seqs2=...), SymdelDB.__init__/lookup, LookupDB.__init__/lookup,
_generate_neighbors, levenshtein_neighbors, _comb_gen, _make_output.  Model: rapidfuzz Levenshtein.distance."""
from vlib.rt import Condition
from harness import common as hc

PROPERTY = "C03"
BOUNDS = ("reference x query collections of 1-2 strings each, concrete lengths <= 3 (quick) / 4 (thorough), free Unicode "
          "content for the symdel engines; for LookupDB the content is restricted to pyrepseq's alphabet constant, "
          "itself rebound to its first 2-3 letters (20 letters at lengths <= 1); max_edits 1..3; histories: "
          "build once + two lookups with independent symbolic queries (inductive step: a lookup leaves the index unchanged)")
OUTSIDE = ["longer strings / larger collections", "max_edits > 3", "rapidfuzz internals (contract model)",
           "LookupDB on letters outside its alphabet"]
ASSUMPTIONS = ["rapidfuzz Levenshtein.distance contract (models/rf_model.py)",
               "CrossHair symbolic semantics + display plugin + z3",
               "alphabet rebinding: pyrepseq.io.aminoacids and default alphabet arguments shortened (configuration bound)"]


def _dist_fn(qs, rs):
    cache = {}

    def dist(q, r):
        if (q, r) not in cache:
            cache[(q, r)] = hc.lev_term(qs[q], rs[r])
        return cache[(q, r)]
    return dist


def _ham_fn(qs, rs):
    cache = {}

    def dist(q, r):
        if (q, r) not in cache:
            cache[(q, r)] = hc.ham_term(qs[q], rs[r])
        return cache[(q, r)]
    return dist


def _fmt(got):
    from crosshair.core import deep_realize
    try:
        return repr(sorted(deep_realize(list(got))))
    except Exception:  # noqa
        return "<unrealisable>"


def _mk_strs(prefix, shape, among):
    from vlib import sym
    return [sym.sym_str(f"{prefix}{i}", n, among=among) for i, n in enumerate(shape)]


# ---- one-shot two-collection search through the public functions
def _perm_index(n):
    return list(range(n - 1, -1, -1))


def _body_symdel(rshape, qshape, k, entry, series=False, **kw):
    def body():
        import pyrepseq
        refs, qs = _mk_strs("r", rshape, None), _mk_strs("q", qshape, None)
        if series:       # both collections as pandas Series whose own index is a permutation of 0..n-1: positions, never labels, identify a sequence
            from models import pd_model
            got = getattr(pyrepseq, entry)(pd_model.Series(list(refs), index=_perm_index(len(refs))), max_edits=k,
                                           seqs2=pd_model.Series(list(qs), index=_perm_index(len(qs))), **kw)
        else:
            got = getattr(pyrepseq, entry)(refs, max_edits=k, seqs2=qs, **kw)
        if not isinstance(got, list):
            return False, "not a list"
        ok = hc.exact_triplets(got, len(qs), len(refs), _dist_fn(qs, refs), k, self_mode=False)
        return ok, (lambda: f"{entry}(refs, max_edits={k}, seqs2=queries) returned {_fmt(got)}")
    return body


def _replay_symdel(rshape, qshape, k, entry, series=False, **kw):
    def replay(inputs):
        import pyrepseq
        refs = [inputs[f"r{i}"] for i in range(len(rshape))]
        qs = [inputs[f"q{i}"] for i in range(len(qshape))]
        if series:
            import pandas as pd
            got = getattr(pyrepseq, entry)(pd.Series(list(refs), index=_perm_index(len(refs)), dtype=object), max_edits=k,
                                           seqs2=pd.Series(list(qs), index=_perm_index(len(qs)), dtype=object), **kw)
        else:
            got = getattr(pyrepseq, entry)(list(refs), max_edits=k, seqs2=list(qs), **kw)
        ok, detail = hc.compare_triplets(got, hc.want_triplets(qs, refs, hc.lev, k, False))
        return ok, f"{entry}({refs!r}, max_edits={k}, seqs2={qs!r}): {detail}"
    return replay


# ---- the SAME object on both sides: symdel(X, seqs2=X) is still the two-collection form (every position pairs with itself at distance 0)
def _body_symdel_same(shape, k, entry, container):
    def body():
        import pyrepseq
        strs = _mk_strs("r", shape, None)
        X = tuple(strs) if container == "tuple" else list(strs)
        got = getattr(pyrepseq, entry)(X, max_edits=k, seqs2=X)
        if not isinstance(got, list):
            return False, "not a list"
        ok = hc.exact_triplets(got, len(strs), len(strs), _dist_fn(strs, strs), k, self_mode=False)
        return ok, (lambda: f"{entry}(X, max_edits={k}, seqs2=X) with one {container} object returned {_fmt(got)}")
    return body


def _replay_symdel_same(shape, k, entry, container):
    def replay(inputs):
        import pyrepseq
        strs = [inputs[f"r{i}"] for i in range(len(shape))]
        X = tuple(strs) if container == "tuple" else list(strs)
        got = getattr(pyrepseq, entry)(X, max_edits=k, seqs2=X)
        ok, detail = hc.compare_triplets(got, hc.want_triplets(strs, strs, hc.lev, k, False))
        return ok, f"{entry}(X, max_edits={k}, seqs2=X) with X = {X!r} (one object on both sides): {detail}"
    return replay


# ---- database objects: build once, query twice, index unchanged, answers equal one-shot spec
def _index_state(db):
    """Structural snapshot of a database object's index (keys and position lists)."""
    out = []
    for attr in ("variant_dict", "seq_dict"):
        d = getattr(db, attr, None)
        if d is not None:
            out.append((attr, [(key, list(val)) for key, val in d.items()]))
    return out


def _same_state(s1, s2):
    from vlib import symops as so
    if len(s1) != len(s2):
        return False
    conds = []
    for (a1, items1), (a2, items2) in zip(s1, s2):
        if a1 != a2 or len(items1) != len(items2):
            return False
        for (k1, v1), (k2, v2) in zip(items1, items2):
            if len(k1) != len(k2) or v1 != v2:   # key lengths and position lists are concrete
                return False
            for i in range(len(k1)):
                conds.append(so.eq(ord(k1[i]), ord(k2[i])))
    return so.b_and(*conds)


def _body_db(kind, rshape, q1shape, q2shape, k, among, k2=None, mode2=None):
    k2 = k if k2 is None else k2

    def body():
        from pyrepseq import nn
        from vlib import symops as so
        refs = _mk_strs("r", rshape, among)
        q1, q2 = _mk_strs("q", q1shape, among), _mk_strs("p", q2shape, among)
        if kind == "symdeldb":
            db = nn.SymdelDB(refs, k)
            look = lambda q, kk, mode: db.lookup(q, custom_distance=mode)
        else:
            db = nn.LookupDB(refs)
            look = lambda q, kk, mode: db.lookup(q, max_edits=kk, custom_distance=mode)
        s0 = _index_state(db)
        got1 = look(q1, k, mode2)          # first lookup in the OTHER mode/radius order: (mode2, k) then (default, k2)
        s1 = _index_state(db)
        got2 = look(q2, k2, None)
        s2 = _index_state(db)
        d1 = _dist_fn(q1, refs) if mode2 is None else _ham_fn(q1, refs)
        ok = so.b_and(
            hc.exact_triplets(got1, len(q1), len(refs), d1, k, self_mode=False),
            hc.exact_triplets(got2, len(q2), len(refs), _dist_fn(q2, refs), k2, self_mode=False),
            _same_state(s0, s1), _same_state(s1, s2))
        return ok, (lambda: f"{kind} lookups returned {_fmt(got1)} then {_fmt(got2)}")
    return body


def _replay_db(kind, rshape, q1shape, q2shape, k, k2=None, mode2=None):
    k2 = k if k2 is None else k2

    def replay(inputs):
        import copy
        from pyrepseq import nn
        refs = [inputs[f"r{i}"] for i in range(len(rshape))]
        q1 = [inputs[f"q{i}"] for i in range(len(q1shape))]
        q2 = [inputs[f"p{i}"] for i in range(len(q2shape))]
        if kind == "symdeldb":
            db = nn.SymdelDB(list(refs), k)
            look = lambda q, kk, mode: db.lookup(list(q), custom_distance=mode)
        else:
            db = nn.LookupDB(list(refs))
            look = lambda q, kk, mode: db.lookup(list(q), max_edits=kk, custom_distance=mode)
        st0 = copy.deepcopy({a: getattr(db, a) for a in ("variant_dict", "seq_dict") if hasattr(db, a)})
        for q, kk, mode in ((q1, k, mode2), (q2, k2, None)):
            got = look(q, kk, mode)
            ok, detail = hc.compare_triplets(got, hc.want_triplets(q, refs, hc.lev if mode is None else hc.ham, kk, False))
            if not ok:
                return False, f"{kind}({refs!r}).lookup({q!r}, max_edits={kk}, custom_distance={mode!r}) [history: lookup 1 = {q1!r}/k={k}/{mode2!r}]: {detail}"
            st = {a: getattr(db, a) for a in ("variant_dict", "seq_dict") if hasattr(db, a)}
            if st != st0:
                return False, f"{kind} index changed by lookup({q!r})"
        return True, ""
    return replay


def _setup_alpha(letters):
    def setup():
        import pyrepseq  # noqa
        hc.set_alphabet(letters)
    return setup


def _sh(s):
    return ",".join(map(str, s)) if s else "-"


def _mk_sd(rshape, qshape, k, entry="symdel", budget=150):
    cid = f"C03/{entry}/ref={_sh(rshape)}/qry={_sh(qshape)}/k={k}"
    return Condition(cid, _body_symdel(rshape, qshape, k, entry), _replay_symdel(rshape, qshape, k, entry), budget=budget,
                     bounds=f"references of lengths {rshape}, queries of lengths {qshape}, free Unicode, max_edits={k}",
                     models=("rf",))


def _mk_db(kind, rshape, q1, q2, k, letters=None, budget=200, k2=None, mode2=None):
    cid = (f"C03/{kind}/ref={_sh(rshape)}/q1={_sh(q1)}/q2={_sh(q2)}/k={k}" + (f"/k2={k2}" if k2 is not None else "")
           + (f"/first={mode2}" if mode2 else "") + (f"/S{len(letters)}" if letters else ""))
    return Condition(cid, _body_db(kind, rshape, q1, q2, k, letters, k2, mode2), _replay_db(kind, rshape, q1, q2, k, k2, mode2), budget=budget,
                     bounds=f"{kind}: references {rshape}, first query list {q1} (max_edits={k}, mode={mode2 or 'default'}), second {q2} "
                            f"(max_edits={k2 if k2 is not None else k}, default mode), "
                            + (f"letters {letters}" if letters else "free Unicode"),
                     models=("rf",), setup=_setup_alpha(letters) if letters else None)


def _probe_scale(which):
    def run():
        import pyrepseq
        from pyrepseq import nn
        refs, planted = hc.scale_case()
        # queries: a copy of reference 65536 (distance 0), the planted variant of 255 (distance 0 to itself, 1 to its code), an unrelated string
        j255 = [j for j, i in planted.items() if i == 255][0]
        queries = [refs[65536], refs[j255], "WWWWWWWWWWWW", refs[69999]]
        j65536 = [j for j, i in planted.items() if i == 65536][0]
        j69999 = [j for j, i in planted.items() if i == 69999][0]
        want = {(0, 65536, 0), (0, j65536, 1), (1, j255, 0), (1, 255, 1), (3, 69999, 0), (3, j69999, 1)}
        if which == "symdel":
            got = pyrepseq.symdel(list(refs), max_edits=1, seqs2=list(queries))
        elif which == "symdeldb":
            got = nn.SymdelDB(list(refs), 1).lookup(list(queries))
        else:
            got = nn.LookupDB(list(refs)).lookup(list(queries), max_edits=1)
        got = [(int(a), int(b), int(c)) for a, b, c in got]
        ok = len(got) == len(set(got)) and set(got) == want
        return ok, f"[scale probe] {which}: 4 queries against {len(refs)} references: got {sorted(got)} want {sorted(want)}"
    return run


def conditions(tier):
    out = []
    for a in range(0, 4):
        for b in range(0, 4):
            for k in (1, 2):
                if a + b == 0 and k > 1:
                    continue
                if a == 3 and b == 3 and k == 2:
                    continue
                out.append(_mk_sd((a,), (b,), k))
    out.append(_mk_sd((2,), (1,), 3))
    out.append(_mk_sd((1,), (2,), 3))
    out.append(_mk_sd((2,), (2,), 3))
    out.append(_mk_sd((2,), (2,), 1, entry="nearest_neighbor"))
    out.append(_mk_sd((2, 1), (1, 2), 1))
    out.append(_mk_sd((1, 1), (1, 1), 1))
    out.append(_mk_sd((2, 2), (2,), 1))
    out.append(_mk_sd((1,), (1, 1, 1), 1))
    out.append(_mk_sd((2, 1, 1), (1,), 2))
    # database objects
    out.append(_mk_db("symdeldb", (2,), (2,), (1,), 1))
    out.append(_mk_db("symdeldb", (2, 1), (1,), (2,), 1))
    out.append(_mk_db("symdeldb", (2,), (2,), (2,), 2))
    out.append(_mk_db("symdeldb", (1, 1), (1, 1), (0,), 1))
    S2, S3 = "AC", "ACD"
    for r, q in [((1,), (1,)), ((1,), (0,)), ((0,), (1,)), ((2,), (1,)), ((1,), (2,)), ((2,), (2,))]:
        out.append(_mk_db("lookupdb", r, q, (1,), 1, S2))
    out.append(_mk_db("lookupdb", (1,), (1,), (1,), 2, S2))
    out.append(_mk_db("lookupdb", (2,), (1,), (0,), 2, S2))
    out.append(_mk_db("lookupdb", (1, 1), (1, 1), (1,), 1, S2))
    out.append(_mk_db("lookupdb", (1,), (1,), (0,), 1, S3))
    out.append(_mk_db("lookupdb", (2,), (1,), (1,), 1, S3))
    # histories whose lookups differ in radius / mode (state cached by one lookup must not leak into the next)
    out.append(_mk_db("lookupdb", (1,), (1,), (1,), 1, S2, k2=2))
    out.append(_mk_db("lookupdb", (1,), (1,), (1,), 2, S2, k2=1))
    out.append(_mk_db("lookupdb", (2,), (1,), (1,), 1, S2, k2=2))
    out.append(_mk_db("lookupdb", (2,), (2,), (2,), 2, S2, k2=1, budget=400))
    out.append(_mk_db("lookupdb", (1,), (1,), (1,), 1, S2, mode2="hamming"))
    out.append(_mk_db("lookupdb", (2,), (1,), (1,), 1, S2, mode2="hamming"))
    out.append(_mk_db("symdeldb", (2,), (2,), (2,), 1, mode2="hamming"))
    out.append(_mk_db("symdeldb", (2, 1), (1,), (1,), 2, mode2="hamming"))
    out.append(_mk_db("lookupdb", (1,), (0,), (), 1, hc.AMINO, budget=300))
    out.append(_mk_db("lookupdb", (0,), (1,), (), 1, hc.AMINO, budget=300))
    if tier == "thorough":
        out.append(_mk_sd((3,), (3,), 2, budget=900))
        for a, b in [(4, 1), (4, 2), (4, 3), (1, 4), (2, 4), (3, 4), (4, 4)]:
            for k in (1, 2):
                out.append(_mk_sd((a,), (b,), k, budget=2400))
        out.append(_mk_sd((2, 2), (2, 2), 1, budget=1800))
        out.append(_mk_sd((3, 2), (2, 3), 2, budget=2400))
        out.append(_mk_db("symdeldb", (3, 2), (2,), (3,), 2, budget=2400))
        out.append(_mk_db("lookupdb", (2,), (2,), (2,), 1, S3, budget=2400))
        out.append(_mk_db("lookupdb", (2, 1), (2,), (1,), 2, S2, budget=2400))
        out.append(_mk_db("lookupdb", (3,), (2,), (1,), 1, S2, budget=2400))
        out.append(_mk_db("lookupdb", (2,), (3,), (1,), 1, S2, budget=2400))
        out.append(_mk_db("lookupdb", (1,), (1,), (), 1, hc.AMINO, budget=2400))
        out.append(_mk_db("lookupdb", (2,), (1,), (), 1, hc.AMINO, budget=3000))
        out.append(_mk_db("lookupdb", (2,), (2,), (0,), 3, S2, budget=2400))
    for entry, rs, qs_, k in [("symdel", (1, 1), (1, 1), 1), ("nearest_neighbor", (2, 1), (1, 2), 1), ("symdel", (1, 1), (1, 1, 1), 1)]:
        out.append(Condition(f"C03/{entry}/series-with-permuted-index/ref={','.join(map(str, rs))}/qry={','.join(map(str, qs_))}/k={k}",
                             _body_symdel(rs, qs_, k, entry, series=True), _replay_symdel(rs, qs_, k, entry, series=True), budget=300, models=("rf", "np", "pd"),
                             bounds=f"{entry}(refs {rs}, seqs2 {qs_}, max_edits={k}) with both collections given as pandas Series indexed n-1..0"))
    for rs, qs_, k in [((1,), (1,), 1), ((2, 1), (1, 2), 1)]:                   # progress=True only wraps the query loop in a progress bar
        out.append(Condition(f"C03/symdel/progress/ref={','.join(map(str, rs))}/qry={','.join(map(str, qs_))}/k={k}", _body_symdel(rs, qs_, k, "symdel", progress=True),
                             _replay_symdel(rs, qs_, k, "symdel", progress=True), budget=300, models=("rf", "misc"),
                             bounds=f"symdel(refs {rs}, seqs2 {qs_}, max_edits={k}, progress=True)"))
    for entry, shape, k, container in [("symdel", (1, 1), 1, "list"), ("symdel", (2, 1), 1, "list"), ("nearest_neighbor", (2, 1), 1, "list"),
                                      ("symdel", (2, 2), 2, "tuple"), ("nearest_neighbor", (1, 1, 0), 1, "tuple")]:
        out.append(Condition(f"C03/{entry}/same-object/{container}/len={','.join(map(str, shape))}/k={k}", _body_symdel_same(shape, k, entry, container),
                             _replay_symdel_same(shape, k, entry, container), budget=300, models=("rf", "np"),
                             bounds=f"{entry}(X, seqs2=X): one {container} object with strings of lengths {shape} on both sides, max_edits={k}"))
    for which in ("symdel", "symdeldb", "lookupdb"):
        out.append(hc.probe_condition(f"C03/probe/{which}/70000-references", f"{which}: four queries against 70 006 references (hits at reference positions 255, 65536, 69999 "
                                      "and beyond 70000): exact (query, reference, distance) set", _probe_scale(which)))
    return out
