"""C07 - Hamming mode returns exactly the equal-length pairs within max_edits mismatches.

Real code: symdel / nearest_neighbor (self and two-collection form), SymdelDB.lookup, _hamming_replacement, hash_based ->
LookupDB.lookup -> _generate_neighbors -> hamming_neighbors, kdtree -> _to_len_bucket -> _kdtree_leven -> _cal_levenshtein."""
from vlib.rt import Condition
from harness import common as hc

PROPERTY = "C07"
BOUNDS = ("lists of 2-4 amino-acid strings with mixed, interleaved concrete lengths <= 3, contents free within a 2-3 letter "
          "sub-alphabet (symdel: also free Unicode); max_edits 1..3; all three engines and symdel's two-collection form")
OUTSIDE = ["lengths > 3, lists > 4, max_edits > 3", "rapidfuzz / KD-tree internals (contract models)"]
ASSUMPTIONS = ["rapidfuzz Hamming.distance / Levenshtein.distance / process.extract contracts (models/rf_model.py)",
               "KDTree ball-query contract, NumPy subset model", "reals for floats (comparison with inf)",
               "CrossHair symbolic semantics + display plugin + z3"]


def _fmt(got):
    from crosshair.core import deep_realize
    try:
        return repr(sorted(deep_realize(list(got))))
    except Exception:  # noqa
        return "<unrealisable>"


def _body(engine, shape, k, letters, qshape):
    def body():
        import pyrepseq
        from vlib import sym
        seqs = [sym.sym_str(f"s{i}", n, among=letters) for i, n in enumerate(shape)]
        if qshape is None:
            got = getattr(pyrepseq, engine)(seqs, max_edits=k, custom_distance="hamming")
            qs, self_mode = seqs, True
        else:
            qs = [sym.sym_str(f"q{i}", n, among=letters) for i, n in enumerate(qshape)]
            got = getattr(pyrepseq, engine)(seqs, max_edits=k, custom_distance="hamming", seqs2=qs)
            self_mode = False
        if not isinstance(got, list):
            return False, "not a list"
        cache = {}

        def dist(q, r):
            if (q, r) not in cache:
                cache[(q, r)] = hc.ham_term(qs[q], seqs[r])
            return cache[(q, r)]

        if engine == "kdtree":
            # rapidfuzz.process.extract keeps only `limit` matches and its DEFAULT is 5: without max_returns the limit handed over must be None
            # (argument record; the hub probe below exercises the real library with more than five neighbours)
            from models import rf_model
            lims = [kw_.get("limit") for name, kw_ in rf_model.CALLS if name == "extract"]
            if any(l is not None for l in lims):
                return False, f"process.extract called with limit={lims} although max_returns is None"
        ok = hc.exact_triplets(got, len(qs), len(seqs), dist, k, self_mode=self_mode)
        return ok, (lambda: f"{engine}(max_edits={k}, hamming) returned {_fmt(got)}")
    return body


def _replay(engine, shape, k, qshape):
    def replay(inputs):
        import pyrepseq
        seqs = [inputs[f"s{i}"] for i in range(len(shape))]
        if qshape is None:
            got = getattr(pyrepseq, engine)(list(seqs), max_edits=k, custom_distance="hamming")
            want = hc.want_triplets(seqs, seqs, hc.ham, k, True)
            call = f"{engine}({seqs!r}, max_edits={k}, custom_distance='hamming')"
        else:
            qs = [inputs[f"q{i}"] for i in range(len(qshape))]
            got = getattr(pyrepseq, engine)(list(seqs), max_edits=k, custom_distance="hamming", seqs2=list(qs))
            want = hc.want_triplets(qs, seqs, hc.ham, k, False)
            call = f"{engine}({seqs!r}, max_edits={k}, custom_distance='hamming', seqs2={qs!r})"
        ok, detail = hc.compare_triplets(got, want)
        return ok, f"{call}: {detail}"
    return replay


def _setup(letters_const):
    def setup():
        import pyrepseq  # noqa
        if letters_const:
            hc.set_alphabet(letters_const)
    return setup


def _mk(engine, shape, k, letters, qshape=None, rebind=False, budget=200):
    cid = f"C07/{engine}/len={','.join(map(str, shape))}" + (f"/qry={','.join(map(str, qshape))}" if qshape is not None else "") \
          + f"/k={k}/{letters or 'unicode'}"
    return Condition(cid, _body(engine, shape, k, letters, qshape), _replay(engine, shape, k, qshape), budget=budget,
                     bounds=f"{engine} hamming: lengths {shape}" + (f" vs queries {qshape}" if qshape is not None else "")
                            + f", letters {letters or 'free Unicode'}, max_edits={k}",
                     models=("rf", "np", "sp", "mp"), setup=_setup(letters if rebind else None))


def _probe_hub(engine, k):
    def run():
        import pyrepseq
        hub = ["CASSLGQYF"] + ["CASSLGQY" + c for c in "ACDEGHI"] + ["CASSF", "CASSLGQYFF", "CASTLGQYA"]
        got = getattr(pyrepseq, engine)(list(hub), max_edits=k, custom_distance="hamming")
        ok, detail = hc.compare_triplets(got, hc.want_triplets(hub, hub, hc.ham, k, True))
        return ok, f"[hub probe] {engine}(max_edits={k}, custom_distance='hamming') on a sequence with seven equal-length neighbours {hub}: {detail}"
    return run


def _probe_long(engine, k):
    def run():
        import pyrepseq
        seqs = ["A" * 128, "A" * 127 + "C", "A" * 129, "C" + "A" * 127, "W" * 260, "W" * 258 + "YY", "CASSLGQYF", "A" * 126 + "CC"]
        got = getattr(pyrepseq, engine)(list(seqs), max_edits=k, custom_distance="hamming")
        want = hc.want_triplets(seqs, seqs, hc.ham, k, True)
        ok, detail = hc.compare_triplets(got, want)
        return ok, f"[long-sequence probe] {engine}(max_edits={k}, custom_distance='hamming') on sequences of lengths {[len(x) for x in seqs]}: {detail}"
    return run


def _probe_scale(engine):
    def run():
        import pyrepseq
        seqs, planted = hc.scale_case()
        seqs = seqs + ["CASSF", "CASSLF"]          # other lengths in between: never paired in Hamming mode
        got = getattr(pyrepseq, engine)(list(seqs), max_edits=1, custom_distance="hamming")
        ok, detail = hc.compare_triplets(got, hc.scale_self_expected(planted))
        return ok, f"[scale probe] {engine}(custom_distance='hamming') on {len(seqs)} sequences (neighbours planted at positions {sorted(planted.values())}): {detail}"
    return run


def conditions(tier):
    out = []
    mixed = [(2, 1, 2), (1, 2, 2), (2, 2, 1), (1, 2, 1), (2, 1, 1)]
    pairs = [(1, 1), (2, 2), (2, 1), (1, 2), (1, 0), (3, 3), (3, 2)]
    for shape in pairs + mixed:
        for k in (1, 2):
            if shape == (3, 3) and k == 2:
                continue
            out.append(_mk("symdel", shape, k, None))
    out.append(_mk("nearest_neighbor", (2, 1, 2), 1, None))
    out.append(_mk("symdel", (2, 2), 3, None))
    for rs, qs in [((2,), (2,)), ((2, 1), (1, 2)), ((1,), (1, 1)), ((2, 2), (2,)), ((3,), (3,)), ((2,), (3,))]:
        out.append(_mk("symdel", rs, 1, None, qshape=qs))
    out.append(_mk("symdel", (2, 1), 2, None, qshape=(2, 2)))
    for shape in [(1, 1), (2, 2), (2, 1), (1, 2, 1), (2, 1, 2)]:
        out.append(_mk("hash_based", shape, 1, "AC", rebind=True))
    out.append(_mk("hash_based", (2, 2), 2, "AC", rebind=True))
    out.append(_mk("hash_based", (2, 2), 1, "ACD", rebind=True))
    out.append(_mk("hash_based", (1, 2, 2), 2, "AC", rebind=True))
    out.append(_mk("hash_based", (1, 1), 1, "ACDEF", rebind=True, budget=300))
    for letters in ("ACY", "LM"):
        for shape in [(1, 1), (2, 2), (2, 1), (2, 1, 2), (1, 2, 2), (2, 2, 1), (1, 2, 1)]:
            if letters == "ACY" and len(shape) == 3 and sum(shape) >= 5:
                continue
            out.append(_mk("kdtree", shape, 1, letters))
        out.append(_mk("kdtree", (2, 2), 2, letters))
    out.append(_mk("kdtree", (2, 1, 2), 2, "LM"))
    out.append(_mk("kdtree", (3, 3), 3, "LM"))      # three same-letter substitutions: on the ball boundary
    out.append(_mk("kdtree", (1, 1, 2, 2), 1, "LM"))
    if tier == "thorough":
        for shape in [(3, 2, 3), (2, 3, 2), (3, 3, 2), (3, 3, 3)]:
            for k in (1, 2, 3):
                out.append(_mk("symdel", shape, k, None, budget=2400))
            out.append(_mk("kdtree", shape, 2, "LM", budget=2400))
            out.append(_mk("kdtree", shape, 1, "ACY", budget=2400))
            out.append(_mk("hash_based", shape, 1, "AC", rebind=True, budget=2400))
        out.append(_mk("hash_based", (2, 2, 2), 2, "ACD", rebind=True, budget=2400))
        out.append(_mk("symdel", (3, 2), 2, None, qshape=(3, 3), budget=2400))
        out.append(_mk("kdtree", (2, 1, 2, 1), 1, "ACY", budget=2400))
    for engine in ("kdtree", "hash_based", "nearest_neighbor"):
        out.append(hc.probe_condition(f"C07/probe/{engine}/hub-with-7-neighbours", f"{engine} in Hamming mode on a sequence with seven equal-length neighbours (more than "
                                      "rapidfuzz.process.extract's default limit of five), k=1", _probe_hub(engine, 1)))
    for engine, k in [("kdtree", 1), ("kdtree", 2), ("hash_based", 1), ("nearest_neighbor", 2)]:
        out.append(hc.probe_condition(f"C07/probe/{engine}/long-sequences/k={k}", f"{engine} in Hamming mode, max_edits={k}, eight sequences of length 9-260 with more than 127 copies "
                                      "of one residue: exact equal-length pairs against a brute-force Hamming distance", _probe_long(engine, k)))
    for engine in ("nearest_neighbor", "hash_based", "kdtree"):
        out.append(hc.probe_condition(f"C07/probe/{engine}/70000-sequences", f"{engine} in Hamming mode, max_edits=1, 70 008 sequences with six planted substitution pairs",
                                      _probe_scale(engine)))
    return out
