"""C01 - default neighbour search returns exactly the pairs within max_edits.

Real code executed symbolically: nearest_neighbor -> symdel -> _check_common_input, SymdelDB.__init__,
_comb_gen, symdel self-mode loop, _make_output.  Model: rapidfuzz Levenshtein.distance (term)."""
from vlib.rt import Condition
from harness import common as hc

PROPERTY = "C01"
BOUNDS = ("lists of 2-4 strings with concrete lengths (shape) and free content over the whole Unicode range "
          "(every code point 0..0x10FFFF per position); max_edits 1..3")
OUTSIDE = ["strings longer than the listed shapes", "lists longer than 4", "max_edits > 3",
           "rapidfuzz's C++ internals (replaced by a contract model, validated by pre-flight and replay)"]
ASSUMPTIONS = ["rapidfuzz Levenshtein.distance follows its documented contract (models/rf_model.py)",
               "CrossHair symbolic str/int semantics, dict/set display plugin (vlib/plugin.py), z3"]


def _body(shape, k, entry, among=None):
    def body():
        import pyrepseq
        from vlib import sym
        seqs = [sym.sym_str(f"s{i}", n, among=among) for i, n in enumerate(shape)]
        fn = getattr(pyrepseq, entry)
        got = fn(seqs, max_edits=k)
        if not isinstance(got, list):
            return False, f"result is {type(got).__name__}, not a list of triplets"
        cache = {}

        def dist(q, r):
            key = (min(q, r), max(q, r))
            if key not in cache:
                cache[key] = hc.lev_term(seqs[key[0]], seqs[key[1]])
            return cache[key]

        ok = hc.exact_triplets(got, len(seqs), len(seqs), dist, k, self_mode=True)
        return ok, (lambda: f"{entry}(max_edits={k}) returned {_fmt(got)}")
    return body


def _fmt(got):
    from crosshair.core import deep_realize
    try:
        return repr(sorted(deep_realize(list(got))))
    except Exception:  # noqa
        return "<unrealisable>"


def _replay(shape, k, entry):
    def replay(inputs):
        import pyrepseq
        seqs = [inputs[f"s{i}"] for i in range(len(shape))]
        got = getattr(pyrepseq, entry)(list(seqs), max_edits=k)
        want = hc.want_triplets(seqs, seqs, hc.lev, k, True)
        ok, detail = hc.compare_triplets(got, want)
        return ok, f"{entry}({seqs!r}, max_edits={k}): {detail}"
    return replay


def _mk(shape, k, entry="nearest_neighbor", budget=120, among=None):
    cid = f"C01/{entry}/len={','.join(map(str, shape))}/k={k}" + (f"/{among}" if among else "")
    return Condition(cid, _body(shape, k, entry, among), _replay(shape, k, entry), budget=budget,
                     bounds=f"{len(shape)} free " + (f"strings over the letters {among}" if among else "Unicode strings") + f" of lengths {shape}, max_edits={k}",
                     models=("rf",))


def _probe_scale(entry):
    def run():
        import pyrepseq
        seqs, planted = hc.scale_case()
        got = getattr(pyrepseq, entry)(list(seqs), max_edits=1)
        ok, detail = hc.compare_triplets(got, hc.scale_self_expected(planted))
        return ok, f"[scale probe] {entry} on {len(seqs)} sequences (neighbours planted at positions {sorted(planted.values())}): {detail}"
    return run


def conditions(tier):
    out = []
    pairs_q = [(a, b) for a in range(0, 4) for b in range(0, a + 1) if a >= 1 or True]
    for (a, b) in pairs_q:
        for k in (1, 2, 3):
            if k == 3 and a > 2:
                continue
            out.append(_mk((a, b), k))
    for shape in [(1, 1, 1), (2, 1, 1), (2, 2, 1), (2, 2, 2), (2, 1, 0), (1, 0, 0)]:
        for k in (1, 2):
            out.append(_mk(shape, k))
    out.append(_mk((1, 1, 1, 1), 1))
    out.append(_mk((1, 1, 0, 0), 1))
    # equal-length frame-shifted pairs at the largest radius ('ACA' / 'CAC': distance 2 with 3 mismatches) - two letters keep (3,3) k=3 cheap
    out.append(_mk((3, 3), 3, among="AC", budget=600))
    out.append(_mk((3, 3), 3, entry="symdel", among="AC", budget=600))
    # letters outside ASCII (one character, several UTF-8 bytes): an edit is an edit of CHARACTERS
    out.append(_mk((2, 2), 1, among="a\u03b1\u0434"))
    out.append(_mk((3, 2), 1, entry="symdel", among="a\u03b1"))
    out.append(_mk((2, 2, 1), 2, among="\u03b1\u20ac"))
    out.append(_mk((2, 2), 1, entry="symdel"))
    out.append(_mk((3, 2), 2, entry="symdel"))
    if tier == "thorough":
        for (a, b) in [(4, 0), (4, 1), (4, 2), (4, 3), (4, 4)]:
            for k in (1, 2, 3):
                out.append(_mk((a, b), k, budget=2400))
        for (a, b) in [(3, 3), (3, 2)]:
            out.append(_mk((a, b), 3, budget=1200))
        for (a, b) in [(5, 3), (5, 4), (5, 2)]:
            for k in (1, 2):
                out.append(_mk((a, b), k, budget=2400))
        for shape in [(3, 3, 2), (3, 2, 2), (3, 3, 3), (2, 2, 2, 2)]:
            for k in (1, 2):
                out.append(_mk(shape, k, budget=2400))
    for entry in ("nearest_neighbor", "symdel"):
        out.append(hc.probe_condition(f"C01/probe/{entry}/70000-sequences", f"{entry}, max_edits=1, on 70 006 sequences with six planted neighbour pairs "
                                      "(positions 0, 255, 256, 65535, 65536, 69999): exact triplet set", _probe_scale(entry)))
    return out
