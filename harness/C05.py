"""C05 - pcDelta is the exact histogram of all pairwise distances.

Real code: pyrepseq.distance.pcDelta, downsample, get_default_metric_for_input_data, load_pcDelta_background (+ stats.pc for bins=0,
metric.Levenshtein for the string default)."""
from vlib.rt import Condition
from harness import common as hc

PROPERTY = "C05"
BOUNDS = ("(a) any Metric: the metric returns fresh symbolic non-negative reals (3-4 elements -> 3-6 pair distances; cross form 2x2, 2x3), "
          "bins = 1-3 SYMBOLIC strictly increasing edges or the default, normalize on/off, pseudocount symbolic >= 0; (b) the real "
          "Levenshtein() metric on 2-3 free strings of length <= 2 (pair orientation, diagonal, distance-0 count, bins=0 == pc); "
          "(c) default metric choice for every subset of {CDR3A, CDR3B, other} columns and for non-tables; (d) maxseqs: numpy's "
          "choice / DataFrame.sample replaced by a nondeterministic oracle - every possible draw; (e) load_pcDelta_background bins")
OUTSIDE = ["more than 3 bins / 6 distances per query", "float bin edges are reals", "the numeric content of the bundled background table",
           "NumPy's histogram implementation (contract: half-open bins, last bin closed)"]
ASSUMPTIONS = ["numpy.histogram contract", "numpy.random.choice(replace=False) returns a subset of the requested size (any of them)",
               "reals for floats", "pandas / NumPy subset models", "CrossHair + plugin + z3"]
M = ("rf", "np", "sp", "pd", "misc")


def _realize(x):
    from crosshair.core import deep_realize
    try:
        return repr(deep_realize(x))
    except Exception:  # noqa
        return "<unrealisable>"


def _sym_metric(n, n2, sym):
    """a Metric whose distances are fresh symbolic non-negative reals"""
    from pyrepseq.metric import Metric
    from models.np_model import NDArray

    class SymMetric(Metric):
        name = "symbolic"

        def __init__(self):
            self.pd = [sym.sym_real(f"d{k}", lo=0) for k in range(n * (n - 1) // 2)]
            self.cd = [sym.sym_real(f"c{k}", lo=0) for k in range(n * n2)] if n2 else []

        def calc_pdist_vector(self, instances):
            assert len(instances) == n
            return NDArray(list(self.pd), (len(self.pd),))

        def calc_cdist_matrix(self, anchors, comparisons):
            assert len(anchors) == n and len(comparisons) == n2
            return NDArray(list(self.cd), (n, n2))
    return SymMetric()


def _edges(sym, so, nb):
    es = [sym.sym_real(f"e{k}", lo=-2, hi=30) for k in range(nb + 1)]
    for k in range(nb):
        sym.assume(so.lt(es[k], es[k + 1]))
    return es


def _hist_terms(so, values, edges):
    nb = len(edges) - 1
    out = []
    for k in range(nb):
        last = k == nb - 1
        out.append(so.count_true([so.b_and(so.le(edges[k], v), so.le(v, edges[k + 1]) if last else so.lt(v, edges[k + 1])) for v in values]))
    return out


def _body_generic(n, n2, nb, normalize, pseudo, bins_kind):
    def body():
        import math
        from pyrepseq import distance
        from models import np_model
        from vlib import sym, symops as so
        m = _sym_metric(n, n2, sym)
        seqs = [f"s{i}" for i in range(n)]
        seqs2 = [f"t{i}" for i in range(n2)] if n2 else None
        es = _edges(sym, so, nb)
        bins = np_model.array(es) if bins_kind == "array" else list(es)
        kw = dict(metric=m, bins=bins, normalize=normalize)
        pc_ = None
        if pseudo:
            pc_ = sym.sym_real("pseudocount", lo=0) if pseudo is True else pseudo
            kw["pseudocount"] = pc_
        got = distance.pcDelta(seqs, seqs2, **kw)
        values = m.cd if n2 else m.pd
        counts = _hist_terms(so, values, es)
        total = so.total(counts)
        if len(got) != nb:
            return False, f"{len(got)} bins returned, expected {nb}"
        conds = []
        for k in range(nb):
            g = got[k]
            if not normalize:
                conds.append(so.eq(g, counts[k]))
            else:
                use_pc = pseudo
                if isinstance(g, float) and math.isnan(g):
                    conds.append(so.b_and(so.eq(total, 0), True if not use_pc else so.eq(pc_, 0)))
                    continue
                if use_pc:
                    # g == (count + c) / (total + 2c)  (c == 0 falls back to count / total)
                    conds.append(so.close(so.mul(g, so.add(total, so.mul(2, pc_))), so.add(counts[k], pc_), 1e-9))
                else:
                    conds.append(so.close(so.mul(g, total), counts[k], 1e-9))
        return so.b_and(*conds), (lambda: f"pcDelta -> {_realize(got.tolist())}")
    return body


def _fr(v):
    from fractions import Fraction
    return Fraction(v["frac"][0], v["frac"][1]) if isinstance(v, dict) else Fraction(v)


def _replay_generic(n, n2, nb, normalize, pseudo, bins_kind):
    def replay(inputs):
        import numpy as np
        from pyrepseq import distance
        from pyrepseq.metric import Metric
        pd_ = [float(_fr(inputs[f"d{k}"])) for k in range(n * (n - 1) // 2)]
        cd_ = [float(_fr(inputs[f"c{k}"])) for k in range(n * n2)] if n2 else []

        class M_(Metric):
            name = "concrete"

            def calc_pdist_vector(self, instances):
                return np.array(pd_)

            def calc_cdist_matrix(self, a, b):
                return np.array(cd_).reshape(n, n2)
        es = [float(_fr(inputs[f"e{k}"])) for k in range(nb + 1)]
        kw = dict(metric=M_(), bins=np.array(es) if bins_kind == "array" else es, normalize=normalize)
        c = 0.0
        if pseudo:
            c = float(_fr(inputs["pseudocount"])) if pseudo is True else float(pseudo)
            kw["pseudocount"] = c
        got = np.asarray(distance.pcDelta([f"s{i}" for i in range(n)], [f"t{i}" for i in range(n2)] if n2 else None, **kw), dtype=float)
        vals = cd_ if n2 else pd_
        counts = []
        for k in range(nb):
            last = k == nb - 1
            counts.append(sum(1 for v in vals if es[k] <= v and (v <= es[k + 1] if last else v < es[k + 1])))
        tot = sum(counts)
        if not normalize:
            want = [float(x) for x in counts]
        elif pseudo and c:
            want = [(x + c) / (tot + 2 * c) for x in counts]
        else:
            want = [x / tot if tot else float("nan") for x in counts]
        ok = all((w != w and g != g) or abs(g - w) <= 1e-9 for g, w in zip(got, want)) and len(got) == nb
        return ok, f"pcDelta(values={vals}, bins={es}, normalize={normalize}, pseudocount={c}) = {got.tolist()} expected {want}"
    return replay


# ---- (b) real Levenshtein metric on free strings
def _body_lev(shape, shape2, mode):
    def body():
        from pyrepseq import distance, stats
        from models import np_model
        from vlib import sym, symops as so
        seqs = [sym.sym_str(f"s{i}", n, lo=1) for i, n in enumerate(shape)]
        seqs2 = seqs if shape2 == "same" else [sym.sym_str(f"t{i}", n, lo=1) for i, n in enumerate(shape2)] if shape2 else None
        if seqs2 is None:
            dists = [hc.lev_term(seqs[i], seqs[j]) for i in range(len(seqs)) for j in range(i + 1, len(seqs))]
        else:
            dists = [hc.lev_term(a, b) for a in seqs for b in seqs2]
        def narrowing():
            from models import rf_model
            return [kw for name, kw in rf_model.CALLS if name == "cdist" and (kw["dtype"] is not None or kw["score_cutoff"] is not None)]
        if mode == "bins0":
            got = distance.pcDelta(seqs, seqs2, bins=0)
            want = stats.pc(seqs, seqs2)
            same = so.count_true([so.eq(d, 0) for d in dists])
            den = len(dists)
            return so.b_and(so.close(got, want, 1e-12), so.close(so.mul(got, den), same, 1e-9)), (lambda: f"pcDelta(bins=0) = {got!r}, pc = {want!r}")
        got = distance.pcDelta(seqs, seqs2, normalize=False) if mode == "default" else distance.pcDelta(seqs, seqs2, normalize=False, bins=np_model.arange(0, 4))
        nb = 24 if mode == "default" else 3
        if narrowing():
            return False, f"the default metric hands narrowing options to rapidfuzz.process.cdist: {narrowing()}"
        if len(got) != nb:
            return False, f"{len(got)} bins"
        conds = []
        for k in range(nb):
            last = k == nb - 1
            want = so.count_true([so.b_or(so.eq(d, k), so.eq(d, k + 1)) if last else so.eq(d, k) for d in dists])
            conds.append(so.eq(got[k], want))
        return so.b_and(*conds), (lambda: f"pcDelta(normalize=False) = {_realize(got.tolist())}")
    return body


def _replay_lev(shape, shape2, mode):
    def replay(inputs):
        import numpy as np
        from pyrepseq import distance, stats
        seqs = [inputs[f"s{i}"] for i in range(len(shape))]
        seqs2 = seqs if shape2 == "same" else [inputs[f"t{i}"] for i in range(len(shape2))] if shape2 else None
        d = [hc.lev(seqs[i], seqs[j]) for i in range(len(seqs)) for j in range(i + 1, len(seqs))] if seqs2 is None else \
            [hc.lev(a, b) for a in seqs for b in seqs2]
        if mode == "bins0":
            got = distance.pcDelta(seqs, seqs2, bins=0)
            want = sum(1 for x in d if x == 0) / len(d)
            return abs(got - want) <= 1e-9 and abs(got - stats.pc(seqs, seqs2)) <= 1e-12, f"pcDelta({seqs!r}, {seqs2!r}, bins=0) = {got!r}, expected {want!r}"
        bins = np.arange(0, 25) if mode == "default" else np.arange(0, 4)
        got = distance.pcDelta(seqs, seqs2, normalize=False) if mode == "default" else distance.pcDelta(seqs, seqs2, normalize=False, bins=bins)
        want, _ = np.histogram(d, bins=bins)
        if list(got) != list(want):
            return False, f"pcDelta({seqs!r}, {seqs2!r}, normalize=False, {mode}) = {list(got)} expected {list(want)}"
        # real-library probe: distances beyond 255 must land in their own bin (no wrap-around in the default string metric)
        longs = ["A" * 300, "C" * 300, "A" * 300]
        lg = distance.pcDelta(longs, normalize=False, bins=[0, 1, 300, 301])
        return list(lg) == [1, 0, 2], f"pcDelta of three 300-letter strings (distances 0, 300, 300) over bins [0,1,300,301] = {list(lg)}, expected [1, 0, 2]"
    return replay


# ---- (b') TCR tables end to end with the default metric
def _body_tcr(kind):
    def body():
        from pyrepseq import distance
        from models import np_model, pd_model
        from vlib import sym, symops as so
        a = [sym.sym_str(f"a{i}", 1, lo=1) for i in range(3)]
        b = [sym.sym_str(f"b{i}", 1, lo=1) for i in range(3)]
        if kind == "beta":
            data, d = pd_model.DataFrame({"CDR3B": list(b), "TRBV": ["x", "y", "z"]}, index=[4, 2, 9]), None
        elif kind == "paired":
            data = pd_model.DataFrame({"CDR3A": list(a), "CDR3B": list(b)}, index=[4, 2, 9])
        else:
            data = (list(a), list(b))
        got = distance.pcDelta(data, bins=np_model.arange(0, 4), normalize=False)
        pairs = [(i, j) for i in range(3) for j in range(i + 1, 3)]
        dist = [hc.lev_term(b[i], b[j]) if kind == "beta" else so.add(hc.lev_term(a[i], a[j]), hc.lev_term(b[i], b[j])) for i, j in pairs]
        conds = [so.eq(got[k], so.count_true([so.b_or(so.eq(d_, k), so.eq(d_, k + 1)) if k == 2 else so.eq(d_, k) for d_ in dist])) for k in range(3)]
        return so.b_and(len(got) == 3, *conds), (lambda: f"pcDelta({kind} table) = {_realize(got.tolist())}")
    return body


def _replay_tcr(kind):
    def replay(inputs):
        import numpy as np
        import pandas as pd
        from pyrepseq import distance
        a, b = [inputs[f"a{i}"] for i in range(3)], [inputs[f"b{i}"] for i in range(3)]
        data = pd.DataFrame({"CDR3B": b, "TRBV": ["x", "y", "z"]}, index=[4, 2, 9]) if kind == "beta" else \
            pd.DataFrame({"CDR3A": a, "CDR3B": b}, index=[4, 2, 9]) if kind == "paired" else (a, b)
        got = distance.pcDelta(data, bins=np.arange(0, 4), normalize=False)
        d = [hc.lev(b[i], b[j]) + (0 if kind == "beta" else hc.lev(a[i], a[j])) for i in range(3) for j in range(i + 1, 3)]
        want, _ = np.histogram(d, bins=np.arange(0, 4))
        return list(got) == list(want), f"pcDelta({kind}: alpha={a}, beta={b}) = {list(got)}, expected {list(want)}"
    return replay


# ---- (c) default metric
def _body_default_metric(kind):
    def body():
        from pyrepseq import distance
        from pyrepseq.metric import Levenshtein
        from pyrepseq.metric.tcr_metric import AlphaCdr3Levenshtein, BetaCdr3Levenshtein, Cdr3Levenshtein
        from models import pd_model
        from vlib import sym
        if kind == "table":
            has_a, has_b, has_o = (bool(sym.sym_bool(n)) for n in ("has_CDR3A", "has_CDR3B", "has_other"))
            cols = {}
            if has_o:
                cols["TRBV"] = ["x", "y"]
            if has_a:
                cols["CDR3A"] = ["CA", "CC"]
            if has_b:
                cols["CDR3B"] = ["CA", "CF"]
            data = pd_model.DataFrame(cols) if cols else pd_model.DataFrame({"z": [1, 2]})
            want = Cdr3Levenshtein if (has_a and has_b) else AlphaCdr3Levenshtein if has_a else BetaCdr3Levenshtein if has_b else Levenshtein
        else:
            data = {"list": ["CA", "CF"], "tuple3": ("CA", "CF", "CC"), "series": pd_model.Series(["CA", "CF"]), "none": None}[kind]
            want = Levenshtein
        got = distance.get_default_metric_for_input_data(data)
        return type(got) is want, f"default metric {type(got).__name__}, expected {want.__name__}"
    return body


def _replay_default_metric(kind):
    def replay(inputs):
        import pandas as pd
        from pyrepseq import distance
        from pyrepseq.metric import Levenshtein
        from pyrepseq.metric.tcr_metric import AlphaCdr3Levenshtein, BetaCdr3Levenshtein, Cdr3Levenshtein
        if kind == "table":
            a, b, o = (bool(inputs.get(n)) for n in ("has_CDR3A", "has_CDR3B", "has_other"))
            cols = {}
            if o:
                cols["TRBV"] = ["x", "y"]
            if a:
                cols["CDR3A"] = ["CA", "CC"]
            if b:
                cols["CDR3B"] = ["CA", "CF"]
            data = pd.DataFrame(cols if cols else {"z": [1, 2]})
            want = Cdr3Levenshtein if (a and b) else AlphaCdr3Levenshtein if a else BetaCdr3Levenshtein if b else Levenshtein
        else:
            data = {"list": ["CA", "CF"], "tuple3": ("CA", "CF", "CC"), "series": pd.Series(["CA", "CF"]), "none": None}[kind]
            want = Levenshtein
        got = distance.get_default_metric_for_input_data(data)
        return type(got) is want, f"{type(got).__name__} vs {want.__name__}"
    return replay


# ---- (d) maxseqs: every possible draw
def _body_maxseqs(n, maxseqs, table):
    def body():
        from pyrepseq import distance
        from pyrepseq.metric import Metric
        from models import np_model, pd_model
        from models.np_model import NDArray
        from vlib import sym, symops as so
        labels = [f"s{i}" for i in range(n)]
        D = {}
        for i in range(n):
            for j in range(i + 1, n):
                D[(labels[i], labels[j])] = D[(labels[j], labels[i])] = sym.sym_int(f"d_{i}_{j}", 0, 3)

        class TM(Metric):
            name = "table"

            def calc_pdist_vector(self, inst):
                items = list(inst["CDR3B"]) if isinstance(inst, pd_model.DataFrame) else list(inst)
                return NDArray([D[(items[i], items[j])] if items[i] != items[j] else 0 for i in range(len(items)) for j in range(i + 1, len(items))],
                               (len(items) * (len(items) - 1) // 2,))

            def calc_cdist_matrix(self, a, b):
                raise NotImplementedError
        seqs = pd_model.DataFrame({"CDR3B": list(labels)}, index=[7 + (i % 2 if table == "dup" else i) for i in range(n)]) if table else list(labels)
        got = distance.pcDelta(seqs, metric=TM(), bins=np_model.arange(0, 5), normalize=False, maxseqs=maxseqs)
        keep = min(n, maxseqs)
        picks = np_model.RANDOM.picks
        if picks:        # a draw happened (required when the input is larger than maxseqs; harmless otherwise)
            if len(picks) != 1 or len(picks[0]) != keep or len(set(picks[0])) != keep:
                return False, f"sampling calls {np_model.RANDOM.calls}, picks {picks}"
            call = np_model.RANDOM.calls[0][1]
            if call["replace"] is not False or len(call["population"]) != n:
                return False, f"generator called with {call}"
            chosen = [labels[k] for k in picks[0]]
        else:
            if keep < n:
                return False, "input larger than maxseqs but nothing was drawn"
            chosen = list(labels)
        dists = [D[(chosen[i], chosen[j])] for i in range(len(chosen)) for j in range(i + 1, len(chosen))]
        conds = [so.eq(got[k], so.count_true([so.b_or(so.eq(d, k), so.eq(d, k + 1)) if k == 3 else so.eq(d, k) for d in dists])) for k in range(4)]
        conds.append(so.eq(so.total([got[k] for k in range(4)]), keep * (keep - 1) // 2))
        return so.b_and(*conds), (lambda: f"pcDelta(maxseqs={maxseqs}) = {_realize(got.tolist())}")
    return body


def _replay_maxseqs(n, maxseqs, table):
    def replay(inputs):
        import numpy as np
        import pandas as pd
        from pyrepseq import distance
        from pyrepseq.metric import Metric
        labels = [f"s{i}" for i in range(n)]
        D = {}
        for i in range(n):
            for j in range(i + 1, n):
                D[(labels[i], labels[j])] = D[(labels[j], labels[i])] = int(inputs[f"d_{i}_{j}"])
        seen = []

        class TM(Metric):
            name = "table"

            def calc_pdist_vector(self, inst):
                items = list(inst["CDR3B"]) if isinstance(inst, pd.DataFrame) else list(inst)
                seen.append(items)
                return np.array([D[(items[i], items[j])] for i in range(len(items)) for j in range(i + 1, len(items))])

            def calc_cdist_matrix(self, a, b):
                raise NotImplementedError
        seqs = pd.DataFrame({"CDR3B": labels}, index=[7 + (i % 2 if table == "dup" else i) for i in range(n)]) if table else list(labels)
        for seed in range(5):
            np.random.seed(seed)
            got = distance.pcDelta(seqs, metric=TM(), bins=np.arange(0, 5), normalize=False, maxseqs=maxseqs)
            items = seen[-1]
            keep = min(n, maxseqs)
            if len(items) != keep or len(set(items)) != keep or not set(items) <= set(labels):
                return False, f"maxseqs={maxseqs}: metric saw {items}"
            want, _ = np.histogram([D[(items[i], items[j])] for i in range(keep) for j in range(i + 1, keep)], bins=np.arange(0, 5))
            if list(got) != list(want):
                return False, f"pcDelta(maxseqs={maxseqs}) = {list(got)} but the sub-sample {items} has histogram {list(want)}"
        return True, ""
    return replay


# ---- (d2) maxseqs with TWO collections: each side is sub-sampled on its own, whatever the other side's size
def _body_maxseqs_cross(n1, n2, maxseqs):
    def body():
        from pyrepseq import distance
        from pyrepseq.metric import Metric
        from models import np_model
        from models.np_model import NDArray
        from vlib import sym, symops as so
        la = [f"a{i}" for i in range(n1)]
        lb = [f"b{j}" for j in range(n2)]
        D = {(a, b): sym.sym_int(f"d_{i}_{j}", 0, 3) for i, a in enumerate(la) for j, b in enumerate(lb)}

        class TM(Metric):
            name = "table"

            def calc_pdist_vector(self, inst):
                raise NotImplementedError

            def calc_cdist_matrix(self, a, b):
                a, b = list(a), list(b)
                return NDArray([D[(x, y)] for x in a for y in b], (len(a), len(b)))
        got = distance.pcDelta(list(la), list(lb), metric=TM(), bins=np_model.arange(0, 5), normalize=False, maxseqs=maxseqs)
        k1, k2 = min(n1, maxseqs), min(n2, maxseqs)
        calls, picks = np_model.RANDOM.calls, np_model.RANDOM.picks
        want_calls = [n for n, k in ((n1, k1), (n2, k2)) if k < n]
        seen = [len(c[1]["population"]) for c in calls]
        # a draw from a collection that already fits is harmless (it must then keep everything); a missing draw is not
        sides = []
        ci = 0
        for n, k, lab in ((n1, k1, la), (n2, k2, lb)):
            if ci < len(calls) and len(calls[ci][1]["population"]) == n and (k < n or len(picks[ci]) == n):
                if len(picks[ci]) != k or len(set(picks[ci])) != k or calls[ci][1]["replace"] is not False:
                    return False, f"sampling calls {calls}, picks {picks}"
                sides.append([lab[t] for t in picks[ci]])
                ci += 1
            else:
                if k < n:
                    return False, f"a collection of {n} elements was not sub-sampled to {k}: generator calls {seen}, expected draws from {want_calls}"
                sides.append(list(lab))
        if ci != len(calls):
            return False, f"unexpected generator calls {calls}"
        dists = [D[(x, y)] for x in sides[0] for y in sides[1]]
        conds = [so.eq(got[k], so.count_true([so.b_or(so.eq(d, k), so.eq(d, k + 1)) if k == 3 else so.eq(d, k) for d in dists])) for k in range(4)]
        conds.append(so.eq(so.total([got[k] for k in range(4)]), k1 * k2))
        return so.b_and(*conds), (lambda: f"pcDelta({n1} x {n2}, maxseqs={maxseqs}) = {_realize(got.tolist())}")
    return body


def _replay_maxseqs_cross(n1, n2, maxseqs):
    def replay(inputs):
        import numpy as np
        from pyrepseq import distance
        from pyrepseq.metric import Metric
        la = [f"a{i}" for i in range(n1)]
        lb = [f"b{j}" for j in range(n2)]
        D = {(a, b): int(inputs[f"d_{i}_{j}"]) for i, a in enumerate(la) for j, b in enumerate(lb)}
        seen = []

        class TM(Metric):
            name = "table"

            def calc_pdist_vector(self, inst):
                raise NotImplementedError

            def calc_cdist_matrix(self, a, b):
                a, b = list(a), list(b)
                seen.append((a, b))
                return np.array([[D[(x, y)] for y in b] for x in a]).reshape(len(a), len(b))
        k1, k2 = min(n1, maxseqs), min(n2, maxseqs)
        for seed in range(5):
            np.random.seed(seed)
            got = distance.pcDelta(list(la), list(lb), metric=TM(), bins=np.arange(0, 5), normalize=False, maxseqs=maxseqs)
            a, b = seen[-1]
            if (len(a), len(b)) != (k1, k2) or len(set(a)) != k1 or len(set(b)) != k2 or not (set(a) <= set(la) and set(b) <= set(lb)):
                return False, f"pcDelta({n1} x {n2} elements, maxseqs={maxseqs}): the metric saw {len(a)} x {len(b)} elements, expected {k1} x {k2}"
            want, _ = np.histogram([D[(x, y)] for x in a for y in b], bins=np.arange(0, 5))
            if list(got) != list(want):
                return False, f"pcDelta(maxseqs={maxseqs}) = {list(got)} but the sub-samples {a} x {b} have histogram {list(want)}"
        return True, ""
    return replay


# ---- (e) background bins
def _body_background():
    def body():
        from pyrepseq import distance
        back, bins = distance.load_pcDelta_background()
        idx = list(back.index)
        b = list(bins)
        ok = b == idx + [idx[-1] + 1] and idx == list(range(len(idx))) and len(b) == len(back) + 1
        only = distance.load_pcDelta_background(return_bins=False)
        return ok and len(only) == len(back), f"bins {b[:5]}.. for index {idx[:5]}.. ({len(back)} rows)"
    return body


def _replay_background():
    def replay(inputs):
        from pyrepseq import distance
        back, bins = distance.load_pcDelta_background()
        idx = list(back.index)
        ok = list(bins) == idx + [idx[-1] + 1] and idx == list(range(len(idx))) and len(bins) == len(back) + 1
        return ok, f"bins {list(bins)[:4]}.. index {idx[:4]}.. rows {len(back)}"
    return replay


def conditions(tier):
    out = []
    T = tier == "thorough"
    cfgs = [(3, 0, 1, False, False, "list"), (3, 0, 2, False, False, "array"), (3, 0, 2, True, False, "list"), (3, 0, 2, True, True, "array"),
            (4, 0, 3, False, False, "array"), (2, 2, 2, False, False, "list"), (2, 2, 2, True, 0.5, "array"), (2, 2, 1, True, True, "list"), (2, 3, 2, False, False, "array"),
            (3, 0, 1, True, True, "list"), (2, 0, 1, True, False, "array"), (3, 0, 2, False, True, "list"), (2, 2, 1, False, 0.5, "array")]
    if T:
        cfgs += [(4, 0, 3, True, True, "array"), (3, 3, 3, False, False, "array"), (4, 0, 2, True, False, "list"), (2, 3, 3, True, True, "list")]
    for n, n2, nb, norm, pseudo, bk in cfgs:
        cid = f"C05/generic/n={n}" + (f"x{n2}" if n2 else "") + f"/bins={nb}{bk}/" + ("norm" if norm else "raw") + ("+pseudo" if pseudo is True else f"+pseudo={pseudo}" if pseudo else "")
        out.append(Condition(cid, _body_generic(n, n2, nb, norm, pseudo, bk), _replay_generic(n, n2, nb, norm, pseudo, bk),
                             budget=300 if not T else 2400, models=M,
                             bounds=f"arbitrary metric on {n}" + (f" x {n2}" if n2 else "") + f" elements, {nb} symbolic bins ({bk}), normalize={norm}, pseudocount={'symbolic >= 0' if pseudo is True else pseudo or 0}"))
    for shape, shape2, mode in [((1, 1), None, "explicit"), ((2, 1, 2), None, "explicit"), ((1, 1, 1), None, "default"), ((2, 2), None, "bins0"),
                                ((1, 1, 1), None, "bins0"), ((1, 1), (1,), "explicit"), ((2, 1), (1, 2), "explicit"), ((1, 1), (1, 1), "bins0"),
                                ((2,), (2, 1), "default"), ((1, 2), "same", "explicit"), ((1, 1), "same", "bins0")] + ([((2, 2, 2), None, "explicit"), ((2, 2), (2, 2), "explicit")] if T else []):
        cid = "C05/levenshtein/" + ",".join(map(str, shape)) + ("/vs/the-same-object" if shape2 == "same" else "/vs/" + ",".join(map(str, shape2)) if shape2 else "") + f"/{mode}"
        out.append(Condition(cid, _body_lev(shape, shape2, mode), _replay_lev(shape, shape2, mode), budget=300 if not T else 2400, models=M,
                             bounds=f"real Levenshtein metric on free strings {shape}" + (" passed as BOTH collections (one object): all N x N cross pairs" if shape2 == "same" else f" vs {shape2}" if shape2 else "") + f", {mode}"))
    for kind in ("beta", "paired", "tuple"):
        out.append(Condition(f"C05/tcr_table/{kind}", _body_tcr(kind), _replay_tcr(kind), budget=600, models=M,
                             bounds=f"pcDelta on a 3-row TCR input ({kind}) with the default metric, free one-letter CDR3s"))
    for kind in ("table", "list", "tuple3", "series", "none"):
        out.append(Condition(f"C05/default_metric/{kind}", _body_default_metric(kind), _replay_default_metric(kind), budget=60, models=M,
                             bounds=f"default metric for input kind {kind}"))
    for n, ms, table in [(3, 2, False), (3, 3, False), (3, 5, False), (4, 2, False), (4, 3, False), (3, 2, True), (4, 3, True), (2, 0, False), (3, 2, "dup"), (4, 2, "dup")]:
        out.append(Condition(f"C05/maxseqs/n={n}/maxseqs={ms}/" + ("table-with-repeated-row-labels" if table == "dup" else "table" if table else "list"), _body_maxseqs(n, ms, table),
                             _replay_maxseqs(n, ms, table), budget=300, models=M, bounds=f"{n} elements, maxseqs={ms}, every possible draw"))
    for n1, n2, ms in [(2, 3, 2), (3, 2, 2), (3, 3, 2), (1, 3, 2), (2, 2, 3)] + ([(2, 4, 3), (4, 2, 3), (3, 4, 2)] if T else []):
        out.append(Condition(f"C05/maxseqs_cross/{n1}x{n2}/maxseqs={ms}", _body_maxseqs_cross(n1, n2, ms), _replay_maxseqs_cross(n1, n2, ms),
                             budget=300 if not T else 1200, models=M,
                             bounds=f"two collections of {n1} and {n2} elements, maxseqs={ms}, every possible pair of draws, arbitrary cross distances"))
    out.append(Condition("C05/background_bins", _body_background(), _replay_background(), budget=60, models=M,
                         bounds="bundled background table (concrete data audit through the same machinery, single path)"))
    return out
