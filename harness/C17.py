"""C17 - resampling and power-law utilities conserve counts and honour their bounds.

XH: stats.subsample and distance.downsample with numpy.random / DataFrame.sample as a nondeterministic oracle (every draw).
SMT: stats.powerlaw_sample (rand -> free reals in [0,1), pow/floor), stats.powerlaw_mle_alpha closed forms and the objective handed
to scipy.optimize.minimize_scalar for method='exact'."""
from vlib.rt import Condition

PROPERTY = "C17"
BOUNDS = ("subsample: K <= 3 categories with symbolic counts 0..2, n symbolic 0..total+1, every possible draw of numpy's choice; "
          "downsample: 2-4 elements (list / array / table), maxseqs 0..5 or None, every draw; powerlaw_sample: size 1-3, integer xmin >= 1 "
          "and alpha > 1 symbolic, uniform variates free reals in [0,1); powerlaw_mle_alpha: 1-4 symbolic positive counts, symbolic cmin")
OUTSIDE = ["uniformity of numpy's generator itself (the claim checks the population handed to it: counts[i] entries labelled i, size n, "
           "replace=False)", "the bounded scalar optimiser (method='exact': only the objective and the bounds are checked)",
           "pow / log / zeta are uninterpreted; one axiom: 0 < b <= 1 and e <= 0 imply pow(b, e) >= 1", "IEEE rounding"]
ASSUMPTIONS = ["numpy.random.choice(replace=False, size=n) returns n distinct positions of the population (any of them) and raises when "
               "n exceeds the population", "NumPy subset model", "reals for floats", "CrossHair + plugin + z3 / SMT tracer"]
M = ("np", "pd")


def _realize(x):
    from crosshair.core import deep_realize
    try:
        return repr(deep_realize(x))
    except Exception:  # noqa
        return "<unrealisable>"


# ---------------------------------------------------------------- subsample
def _body_subsample(K, cmax, as_array):
    def body():
        from pyrepseq import stats
        from models import np_model
        from vlib import sym, symops as so
        counts = [sym.sym_int(f"c{i}", 0, cmax) for i in range(K)]
        total = so.total(counts)
        n = sym.sym_int("n", 0, K * cmax + 1)
        arg = np_model.array(counts) if as_array else list(counts)
        try:
            idx, cnt = stats.subsample(arg, n)
        except ValueError:
            return so.gt(n, total), "subsample raised although n <= total"
        if so.is_symbolic(so.gt(n, total)) or so.gt(n, total):
            if n > total:
                return False, "subsample accepted n larger than the total"
        call = np_model.RANDOM.calls[0][1] if np_model.RANDOM.calls else None
        if call is None or call["replace"] is not False or call["p"] is not None:
            return False, f"generator call {call}"
        pop = call["population"]
        conds = [so.eq(call["size"], n)]
        # the population handed to the generator has exactly counts[i] entries labelled i: every item equally likely
        for i in range(K):
            conds.append(so.eq(sum(1 for x in pop if x == i), counts[i]))
        conds.append(len(pop) == sum(sum(1 for x in pop if x == i) for i in range(K)))
        idx_l, cnt_l = list(idx), list(cnt)
        if len(idx_l) != len(cnt_l):
            return False, "indices and counts differ in length"
        for a in range(len(idx_l)):
            if a and not (idx_l[a - 1] < idx_l[a]):
                return False, f"indices not sorted/unique: {_realize(idx_l)}"
            i = int(idx_l[a])
            if not 0 <= i < K:
                return False, f"index {i} out of range"
            conds.append(so.b_and(so.gt(cnt_l[a], 0), so.le(cnt_l[a], counts[i])))
        conds.append(so.eq(so.total(cnt_l), n))
        return so.b_and(*conds), (lambda: f"subsample -> {_realize(idx_l)}, {_realize(cnt_l)}")
    return body


def _replay_subsample(K, cmax, as_array):
    def replay(inputs):
        import numpy as np
        from pyrepseq import stats
        counts = [int(inputs[f"c{i}"]) for i in range(K)]
        n = int(inputs["n"])
        arg = np.array(counts) if as_array else list(counts)
        for seed in range(6):
            np.random.seed(seed)
            try:
                idx, cnt = stats.subsample(arg, n)
            except ValueError:
                if n <= sum(counts):
                    return False, f"subsample({counts}, {n}) raised ValueError"
                continue
            if n > sum(counts):
                return False, f"subsample({counts}, {n}) accepted n larger than the total {sum(counts)}: {idx}, {cnt}"
            idx, cnt = list(idx), list(cnt)
            ok = idx == sorted(set(idx)) and all(c > 0 for c in cnt) and sum(cnt) == n and all(cnt[a] <= counts[idx[a]] for a in range(len(idx)))
            if not ok:
                return False, f"subsample({counts}, {n}) = {idx}, {cnt}"
        return True, ""
    return replay


# ---------------------------------------------------------------- downsample
def _body_downsample(n, kind, maxseqs):
    def body():
        from pyrepseq import distance
        from models import np_model, pd_model
        from vlib import sym
        items = [sym.sym_str(f"x{i}", 1, lo=1) for i in range(n)]
        if kind == "table":
            data = pd_model.DataFrame({"CDR3B": list(items), "v": list(range(n))}, index=[3 + 2 * i for i in range(n)])
        elif kind == "table-dupindex":         # e.g. two repertoires pooled with pd.concat: index labels repeat
            data = pd_model.DataFrame({"CDR3B": list(items), "v": list(range(n))}, index=[3 + (i % 2) for i in range(n)])
        elif kind == "array":
            data = np_model.array(items)
        else:
            data = list(items)
        got = distance.downsample(data, maxseqs)
        if maxseqs is None or n <= maxseqs:
            return got is data, "input not returned unchanged although it has at most maxseqs elements"
        picks = np_model.RANDOM.picks
        if len(picks) != 1 or len(set(picks[0])) != maxseqs or len(picks[0]) != maxseqs:
            return False, f"draws {picks}"
        if len(got) != maxseqs:
            return False, f"{len(got)} elements returned, expected exactly {maxseqs}"
        if kind == "table-dupindex":
            vs = [int(v) for v in got._cols["v"]]
            return len(set(vs)) == maxseqs and all(got._cols["CDR3B"][a] is items[v] for a, v in enumerate(vs)), \
                f"rows {vs} returned for maxseqs={maxseqs}: not {maxseqs} distinct input rows"
        if kind == "table":
            rows = [int(k) for k in picks[0]]
            ok = list(got._index) == [3 + 2 * r for r in rows] and all(got._cols["CDR3B"][a] is items[r] for a, r in enumerate(rows)) \
                and list(got._cols["v"]) == rows
            return ok, "sampled rows are not a subset of the input rows"
        out = list(got)
        return all(out[a] is items[k] for a, k in enumerate(picks[0])), "sampled elements are not the drawn input elements"
    return body


def _replay_downsample(n, kind, maxseqs):
    def replay(inputs):
        import collections
        import numpy as np
        import pandas as pd
        from pyrepseq import distance
        items = [inputs[f"x{i}"] for i in range(n)]
        data = pd.DataFrame({"CDR3B": items, "v": list(range(n))}, index=[3 + 2 * i for i in range(n)]) if kind == "table" else \
            pd.DataFrame({"CDR3B": items, "v": list(range(n))}, index=[3 + (i % 2) for i in range(n)]) if kind == "table-dupindex" else \
            (np.array(items) if kind == "array" else list(items))
        for seed in range(5):
            np.random.seed(seed)
            got = distance.downsample(data, maxseqs)
            if maxseqs is None or n <= maxseqs:
                if got is not data:
                    return False, f"downsample({items!r}, {maxseqs}) did not return its input unchanged"
                continue
            if len(got) != maxseqs:
                return False, f"downsample returned {len(got)} elements, expected {maxseqs}"
            if kind == "table-dupindex":
                vs = list(got["v"])
                if len(set(vs)) != maxseqs or any(got["CDR3B"].iloc[a] != items[v] for a, v in enumerate(vs)):
                    return False, f"downsample(table with index {list(data.index)}, {maxseqs}) returned rows {vs}"
            elif kind == "table":
                if not (set(got.index) <= set(data.index) and len(set(got.index)) == maxseqs and got.equals(data.loc[got.index])):
                    return False, f"rows {list(got.index)} are not a subset of the input rows"
            else:
                c_in, c_out = collections.Counter(items), collections.Counter(list(got))
                if any(c_out[k] > c_in[k] for k in c_out):
                    return False, f"downsample({items!r}, {maxseqs}) = {list(got)!r} is not a sub-multiset"
        return True, ""
    return replay


# ---------------------------------------------------------------- powerlaw_sample (SMT)
def _body_plsample(size):
    def body(E):
        import numpy as np
        import z3
        from pyrepseq import stats
        from vlib.smt import Sym
        rs = []

        def fake_rand(k):
            assert int(k) == size
            out = []
            for i in range(int(k)):
                r = E.real(f"r{i}", lo=0)
                E.assume(r.term < 1)
                out.append(r)
            rs.extend(out)
            return np.array(out, dtype=object)
        old = np.random.rand
        np.random.rand = fake_rand
        try:
            xmin = E.int("xmin", 1)
            alpha = E.real("alpha")
            E.assume(alpha.term > 1)
            b, e = z3.Reals("b e")
            pw = E.uf("pow", 2)
            E.axiom(z3.ForAll([b, e], z3.Implies(z3.And(b > 0, b <= 1, e <= 0), pw(b, e) >= 1), patterns=[pw(b, e)]),
                    "forall b, e: 0 < b <= 1 and e <= 0 imply pow(b, e) >= 1")
            got = stats.powerlaw_sample(size=size, xmin=xmin, alpha=alpha)
        finally:
            np.random.rand = old
        if len(got) != size:
            return False, f"{len(got)} samples, expected {size}"
        claims = []
        for g in got:
            t = g.term if isinstance(g, Sym) else None
            if t is None:
                return False, f"non-symbolic sample {g!r}"
            claims.append(z3.And(t >= z3.ToReal(xmin.term), z3.IsInt(t)))
        return z3.And(*claims), f"samples {list(got)}"
    return body


def _replay_plsample(size):
    def replay(inputs):
        import numpy as np
        from pyrepseq import stats
        from vlib.smt import from_model
        xmin, alpha = int(inputs["xmin"]), float(from_model(inputs["alpha"]))
        rs = [float(from_model(inputs.get(f"r{i}", 0))) for i in range(size)]
        old = np.random.rand
        np.random.rand = lambda k: np.array(rs[:int(k)])
        try:
            got = stats.powerlaw_sample(size=size, xmin=xmin, alpha=alpha)
        finally:
            np.random.rand = old
        ok = len(got) == size and all(np.isfinite(g) and g >= xmin and float(g).is_integer() for g in got)
        return ok, f"powerlaw_sample(size={size}, xmin={xmin}, alpha={alpha}) with uniforms {rs} = {list(got)}"
    return replay


# ---------------------------------------------------------------- powerlaw_mle_alpha (SMT)
def _body_mle(n, method, with_kwargs=False):
    def body(E):
        import numpy as np
        import z3
        from pyrepseq import stats
        cs = [E.real(f"c{i}", lo=1) for i in range(n)]
        cmin = E.real("cmin", lo=1)
        log = E.uf("log", 1)
        if method in ("simple", "continuitycorrection"):
            try:
                got = stats.powerlaw_mle_alpha(np.array(cs, dtype=object), cmin=cmin, method=method)
            except ZeroDivisionError:
                return True      # degenerate denominator (no count above cmin / sum of logs zero): outside the closed-form claim
            kept = [c for c in cs if E.decide(c.term >= cmin.term)]       # already decided by the real code on this path
            base = cmin.term if method == "simple" else cmin.term - z3.RealVal("1/2")
            den = z3.Sum([log(c.term / base) for c in kept]) if len(kept) > 1 else (log(kept[0].term / base) if kept else z3.RealVal(0))
            return (got.term == 1 + z3.RealVal(len(kept)) / den, f"alpha={got}")
        # method == 'exact': record what is handed to the optimiser
        import scipy.optimize
        import scipy.special
        rec = {}

        class Res:
            success = True
            x = "ARGMAX"

        def fake_min(fun, **kw):
            rec["fun"], rec["kw"] = fun, kw
            return Res()
        zeta = E.uf("zeta", 2)
        from vlib.smt import Sym
        old_m, old_z = scipy.optimize.minimize_scalar, scipy.special.zeta
        scipy.optimize.minimize_scalar = fake_min
        scipy.special.zeta = lambda a, q: Sym(E, zeta(a.term if isinstance(a, Sym) else z3.RealVal(a), q.term if isinstance(q, Sym) else z3.RealVal(q)))
        try:
            if with_kwargs == "then-default":
                # a call with caller options FIRST, then a plain call: the second one gets the documented defaults again
                lo, hi = E.real("lo", lo=1), E.real("hi", lo=1)
                E.assume(lo.term < hi.term)
                stats.powerlaw_mle_alpha(np.array(cs, dtype=object), cmin=cmin, method="exact", bounds=(lo, hi), options={"xatol": 1e-3})
                got = stats.powerlaw_mle_alpha(np.array(cs, dtype=object), cmin=cmin, method="exact")
                want_kw = dict(bounds=[1.5, 4.5], method="bounded")
            elif with_kwargs:
                # "within its bounds": options given by the caller are passed on and take precedence over the documented defaults
                lo, hi, tol = E.real("lo", lo=1), E.real("hi", lo=1), E.real("tol", lo=0)
                E.assume(lo.term < hi.term)
                caller = dict(bounds=(lo, hi), options={"xatol": tol})
                got = stats.powerlaw_mle_alpha(np.array(cs, dtype=object), cmin=cmin, method="exact", **caller)
                want_kw = dict(bounds=(lo, hi), method="bounded", options={"xatol": tol})
            else:
                got = stats.powerlaw_mle_alpha(np.array(cs, dtype=object), cmin=cmin, method="exact")
                want_kw = dict(bounds=[1.5, 4.5], method="bounded")
            a = E.real("a_probe", lo=1)
            val = rec["fun"](a)
        finally:
            scipy.optimize.minimize_scalar, scipy.special.zeta = old_m, old_z
        kw = rec["kw"]
        same = set(kw) == set(want_kw) and all(kw[k] is want_kw[k] or (with_kwargs in (False, "then-default") and kw[k] == want_kw[k]) or
                                               (k == "options" and list(kw[k]) == ["xatol"] and kw[k]["xatol"] is want_kw[k]["xatol"]) or
                                               (k == "bounds" and len(kw[k]) == 2 and kw[k][0] is want_kw[k][0] and kw[k][1] is want_kw[k][1]) or
                                               (k == "method" and kw[k] == "bounded") for k in kw)
        if got != "ARGMAX" or not same:
            return False, f"optimiser result not returned / options handed to minimize_scalar {sorted(kw)}: bounds={kw.get('bounds')!r}"
        kept = [c for c in cs if E.decide(c.term >= cmin.term)]
        slog = z3.Sum([log(c.term) for c in kept]) if len(kept) > 1 else (log(kept[0].term) if kept else z3.RealVal(0))
        loglik = -z3.RealVal(len(kept)) * log(zeta(a.term, cmin.term)) - a.term * slog
        return (val.term == -loglik, f"objective {val}")
    return body


def _replay_mle(n, method, with_kwargs=False):
    def replay(inputs):
        import math
        import numpy as np
        from pyrepseq import stats
        from vlib.smt import from_model
        cs = [float(from_model(inputs[f"c{i}"])) for i in range(n)]
        cmin = float(from_model(inputs["cmin"]))
        kept = [c for c in cs if c >= cmin]
        if method == "exact" and not with_kwargs:
            return True, "wiring claim only"
        if method == "exact" and with_kwargs == "then-default":
            import scipy.optimize
            seen = []
            real_min = scipy.optimize.minimize_scalar

            def spy(fun, **kw):
                seen.append(dict(kw))
                return real_min(fun, **kw)
            scipy.optimize.minimize_scalar = spy
            try:
                sample = [1] * 40 + [2] * 9 + [3] * 4 + [5, 7, 12, 30]
                stats.powerlaw_mle_alpha(sample, cmin=1, method="exact", bounds=(1.05, 1.3), options={"xatol": 1e-3})
                got = float(stats.powerlaw_mle_alpha(sample, cmin=1, method="exact"))
            finally:
                scipy.optimize.minimize_scalar = real_min
            ok = len(seen) == 2 and list(seen[1].get("bounds", ())) == [1.5, 4.5] and set(seen[1]) == {"bounds", "method"} and 1.5 - 1e-6 <= got <= 4.5 + 1e-6
            return ok, (f"powerlaw_mle_alpha(..., 'exact') called after a call with bounds=(1.05, 1.3): scipy.optimize.minimize_scalar received "
                        f"{seen[1] if len(seen) > 1 else seen}, estimate {got!r} (documented default bounds [1.5, 4.5])")
        if method == "exact":
            # real optimiser, caller's interval: the estimate lies inside it and no grid point of it has a visibly larger likelihood
            import scipy.special
            lo, hi = float(from_model(inputs["lo"])), float(from_model(inputs["hi"]))
            lo, hi = max(lo, 1.05), min(max(hi, lo + 0.5, 1.55), 12.0)
            ints = [max(1, int(round(c))) for c in cs] or [1]
            kept_i = [c for c in ints if c >= 1]

            def ll(a):
                return -len(kept_i) * math.log(scipy.special.zeta(a, 1)) - a * sum(math.log(c) for c in kept_i)
            import scipy.optimize
            seen = {}
            real_min = scipy.optimize.minimize_scalar

            def spy(fun, **kw):
                seen.update(kw)
                return real_min(fun, **kw)
            scipy.optimize.minimize_scalar = spy
            try:
                got = float(stats.powerlaw_mle_alpha(ints, cmin=1, method="exact", bounds=(lo, hi), options={"xatol": 1e-7}))
            finally:
                scipy.optimize.minimize_scalar = real_min
            if tuple(seen.get("bounds", ())) != (lo, hi) or seen.get("options") != {"xatol": 1e-7} or seen.get("method") != "bounded":
                return False, (f"powerlaw_mle_alpha(..., 'exact', bounds=({lo}, {hi}), options={{'xatol': 1e-7}}) handed "
                               f"{ {k: seen[k] for k in sorted(seen)} } to scipy.optimize.minimize_scalar")
            best = max(ll(lo + (hi - lo) * t / 400) for t in range(401))
            ok = lo - 1e-6 <= got <= hi + 1e-6 and ll(got) >= best - 1e-3
            return ok, (f"powerlaw_mle_alpha({ints}, cmin=1, 'exact', bounds=({lo}, {hi})) = {got!r}: log-likelihood {ll(got)!r}, "
                        f"best on a 401-point grid of the caller's interval {best!r}")
        base = cmin if method == "simple" else cmin - 0.5
        den = sum(math.log(c / base) for c in kept)
        try:
            got = stats.powerlaw_mle_alpha(cs, cmin=cmin, method=method)
        except ZeroDivisionError:
            return den == 0, "ZeroDivisionError"
        if den == 0:
            return True, "degenerate (all counts equal cmin)"
        want = 1 + len(kept) / den
        ok = got == want or (math.isfinite(got) and math.isfinite(want) and abs(got - want) <= 1e-9 * max(1, abs(want)))
        return ok, f"powerlaw_mle_alpha({cs}, cmin={cmin}, {method}) = {got!r}, expected {want!r}"
    return replay


def _probe_heavy_tail():
    """powerlaw_sample for exponents close to 1 (legal: alpha > 1): draws exceed 2^63, where an integer dtype wraps around"""
    import math
    import numpy as np
    from pyrepseq import stats
    bad = []
    for seed, size, xmin, alpha in [(1, 20000, 1, 1.1), (2, 20000, 2, 1.15), (3, 20000, 1, 1.2), (4, 5000, 3, 1.5), (5, 5000, 1, 2.0), (6, 1000, 7, 3.5), (7, 0, 1, 2.0)]:
        np.random.seed(seed)
        got = stats.powerlaw_sample(size=size, xmin=xmin, alpha=alpha)
        vals = [float(v) for v in got]
        if len(vals) != size:
            bad.append(f"size={size} xmin={xmin} alpha={alpha}: {len(vals)} values")
            continue
        wrong = [v for v in vals if not (math.isfinite(v) and v >= xmin and float(v).is_integer())]
        if wrong:
            bad.append(f"seed={seed} size={size} xmin={xmin} alpha={alpha}: {len(wrong)} values are not integers >= xmin, e.g. {wrong[:3]}")
    return not bad, "[heavy-tail probe] powerlaw_sample: " + ("; ".join(bad) if bad else "ok")


def conditions(tier):
    out = []
    T = tier == "thorough"
    for K, cmax, arr in [(1, 2, False), (2, 2, False), (2, 2, True), (3, 1, False)] + ([(3, 2, False), (2, 3, True)] if T else []):
        out.append(Condition(f"C17/subsample/K={K}/cmax={cmax}/" + ("array" if arr else "list"), _body_subsample(K, cmax, arr),
                             _replay_subsample(K, cmax, arr), budget=400 if not T else 3000, models=M,
                             bounds=f"{K} categories with counts 0..{cmax}, n symbolic, every draw"))
    for n, kind, ms in [(3, "list", 2), (3, "list", 3), (3, "list", None), (3, "array", 1), (4, "list", 2), (2, "list", 5), (3, "table", 2),
                        (3, "table", 3), (4, "table", 3), (3, "list", 0), (2, "table", None), (3, "table-dupindex", 2), (4, "table-dupindex", 1)]:
        out.append(Condition(f"C17/downsample/n={n}/{kind}/maxseqs={ms}", _body_downsample(n, kind, ms), _replay_downsample(n, kind, ms),
                             budget=300, models=M, bounds=f"{n} elements ({kind}), maxseqs={ms}, every draw"))
    for size in (1, 2, 3):
        out.append(Condition(f"C17/powerlaw_sample/size={size}", _body_plsample(size), _replay_plsample(size), budget=300, engine="SMT",
                             bounds=f"{size} samples, xmin symbolic integer >= 1, alpha symbolic > 1, uniforms free in [0,1)"))
    for method in ("simple", "continuitycorrection", "exact"):
        for n in (1, 2, 3) + ((4,) if T else ()):
            out.append(Condition(f"C17/powerlaw_mle_alpha/{method}/n={n}", _body_mle(n, method), _replay_mle(n, method), budget=300, engine="SMT",
                                 bounds=f"{n} symbolic counts >= 1, symbolic cmin >= 1, method {method}"))
    out.append(Condition("C17/powerlaw_mle_alpha/exact-default-after-caller-options/n=1", _body_mle(1, "exact", "then-default"), _replay_mle(1, "exact", "then-default"),
                         budget=300, engine="SMT", bounds="a call with caller-supplied bounds, then a default call: the default call gets the documented options"))
    for n in (1, 2) + ((3,) if T else ()):
        out.append(Condition(f"C17/powerlaw_mle_alpha/exact-caller-options/n={n}", _body_mle(n, "exact", True), _replay_mle(n, "exact", True), budget=300,
                             engine="SMT", bounds=f"{n} symbolic counts, symbolic cmin, caller-supplied symbolic bounds lo < hi and optimiser options"))
    from harness import common as hc
    out.append(hc.probe_condition("C17/probe/powerlaw_sample/heavy-tail", "powerlaw_sample with 1 000-20 000 draws for exponents 1.1 ... 3.5 (values beyond 2^63 occur for "
                                  "exponents close to 1): every value finite, integer-valued and >= xmin", _probe_heavy_tail))
    return out
