#!/usr/bin/env python3
"""Regenerate /verif/MANIFEST.json from the table below (run after adding/removing a check)."""
import json, os
HERE = os.path.dirname(os.path.dirname(os.path.abspath(__file__)))

CHECKS = {
 "C01": dict(
    technique="bounded symbolic execution of the real nearest_neighbor/symdel code (CrossHair + z3), one condition per input shape, solver verdict over all string contents",
    text="For each listed shape (2-4 strings, lengths <=3 quick / <=5 thorough, max_edits<=3) the real symdel code is executed symbolically with every character a free Unicode code point; CrossHair reports 'Confirmed over all paths' only when z3 has shown on every feasible path that the result equals the Levenshtein-ball specification. Bounded model checking: nothing is claimed beyond the shapes.",
    note="Trusted: CrossHair 0.0.110 symbolic str/int/container semantics, the dict/set display plugin (vlib/plugin.py), z3 5.1, the rapidfuzz contract model (models/rf_model.py; every solver witness is replayed on the real rapidfuzz-backed stack).",
    ref="DESIGN.md section 6 C01"),
}

_XH_NOTE = "Trusted: CrossHair 0.0.110 symbolic str/int/container semantics, the dict/set display plugin (vlib/plugin.py), z3 5.1, and the library contract models named in the evidence (each validated by the conformance pre-flight and by replaying every sampled solver witness on the real, unmodelled stack). Secondary net, not the deciding step: every run also replays the committed witness corpus (corpus/<id>.json, solver-generated on the unchanged tree) on the real stack."
CHECKS["C03"] = dict(
    technique="bounded symbolic execution of the real two-collection search code (symdel seqs2 / SymdelDB.lookup / LookupDB.lookup) with CrossHair + z3; database histories via one inductive step (lookup leaves the index unchanged)",
    text="Per shape (1-3 references x 1-3 queries, lengths <=3 quick / <=4 thorough, max_edits<=3) the real lookup code runs on free symbolic strings; the assertion (exact triplet set, query/reference orientation, equal-position pairs, index unchanged by a lookup, second lookup equals a fresh search) is confirmed on every path or refuted with a concrete input that is replayed on the real stack.",
    note=_XH_NOTE + " LookupDB is exercised with pyrepseq's alphabet constant rebound to 2-3 letters (20 letters at length <=1).",
    ref="DESIGN.md section 6 C03")
CHECKS["C04"] = dict(
    technique="bounded symbolic execution of the real hash_based and kdtree code against the Levenshtein-ball specification (CrossHair + z3), KD-tree / rapidfuzz.extract / NumPy replaced by contract models",
    text="Per shape (2-3 amino-acid strings, lengths <=3, contents free within 2-3 letter sub-alphabets that share or straddle kdtree's composition bins, max_edits<=3, compression 1-3) the real engines are executed symbolically and must return exactly the specified triplet set; bounded model checking with the KD-tree ball query as a contract.",
    note=_XH_NOTE,
    ref="DESIGN.md section 6 C04")
CHECKS["C07"] = dict(
    technique="bounded symbolic execution of all three engines in Hamming mode (incl. symdel's two-collection form) on mixed-length inputs, CrossHair + z3",
    text="Per shape (2-4 strings of interleaved lengths <=3) the real code must return exactly the equal-length pairs within max_edits mismatches with positions in input order; confirmed over all paths or refuted with a replayed concrete input.",
    note=_XH_NOTE,
    ref="DESIGN.md section 6 C07")

CHECKS["C10"] = dict(
    technique="bounded symbolic execution of the four public search functions for output formats, input containers with SYMBOLIC index labels, and invalid-argument classes (CrossHair + z3)",
    text="(a) coo_matrix/ndarray outputs must equal the matrix defined by the distance specification cell by cell (SciPy's duplicate-summing COO semantics modelled, so a doubly added entry is visible); (b) list/tuple/array/Series (index labels symbolic, distinct) must give the specified triplets; (c) every invalid-argument class (symbolic non-positive max_edits/n_cpu/max_returns, symbolic and near-miss output_type, non-string elements, empty input) must raise. Confirmed over all paths per condition or refuted and replayed.",
    note=_XH_NOTE + " Array containers exclude code point 0 (NumPy's unicode dtype strips trailing NULs).",
    ref="DESIGN.md section 6 C10")
CHECKS["C11"] = dict(
    technique="bounded symbolic execution of kdtree with n_cpu as a symbolic integer 1..16 against a contract model of multiprocessing.Pool (schedule chosen by the solver), concrete compressions 1..25, and max_returns assertions as solver terms",
    text="The real _to_triplets / _cal_* / _histogram_encode code runs with n_cpu symbolic: chunk-size arithmetic, the n_cpu>len(seqs) case and the chunk execution order are solver variables; results must equal the specification for default, Hamming and arbitrary custom distances; per-query max_returns semantics (count = min(m, #neighbours), all true, none omitted strictly closer) are asserted as z3 terms.",
    note=_XH_NOTE + " Real process scheduling / pickling are replaced by the Pool.map contract (models/mp_model.py).",
    ref="DESIGN.md section 6 C11")
CHECKS["C14"] = dict(
    technique="bounded symbolic execution of all engines with the custom distance modelled as one fresh symbolic real per unordered pair (every metric at once) and a symbolic max_custom_distance (CrossHair + z3, reals for floats)",
    text="Reported <=> Levenshtein <= max_edits and custom <= max_custom_distance, reported value = custom value, for every symmetric distance function with d(x,x)=0, positivity and triangle inequality, finite and infinite radius, all engines and symdel's two-collection form; confirmed over all paths or refuted with concrete strings plus a concrete distance table replayed on the real stack.",
    note=_XH_NOTE + " Floats are reals.",
    ref="DESIGN.md section 6 C14")

_SMT_NOTE = "Trusted: the operator-overloading tracer (vlib/smt.py, ~300 lines), z3 5.1 (QF_NRA/NIA), NumPy's object-array dispatch to element operators; reals stand in for floats; uninterpreted functions for log / non-integer powers. Every counterexample is replayed on the real function with concrete numbers. Secondary net, not the deciding step: every run also replays the committed witness corpus (corpus/<id>.json, solver-generated on the unchanged tree) on the real stack."
CHECKS["C02"] = dict(engine="SMT+XH",
    technique="symbolic execution of the real pc / pc_n / pc_joint: integer labels through REAL NumPy under a fork-on-branch tracer (z3), count vectors as symbolic integers/reals, tables of free strings with symbolic missing cells through pandas/NumPy contract models (CrossHair + z3)",
    text="For N <= 5 (6 thorough) symbolic labels every way np.unique / intersect1d can order and group them is a path; on each path z3 shows the returned float equals (#coinciding ordered pairs)/(N(N-1)) (resp. cross pairs/(N1 N2)), lies in [0,1] and equals pc_n of the multiplicities. pc_n's closed form is decided for K <= 6 symbolic counts. Tables (2-3 rows x 1-3 columns, free strings or missing): rows coincide iff all columns agree; pc_joint on the selected columns returns the same number; the legacy tuple input goes through the same path.",
    note=_SMT_NOTE + " Table conditions additionally trust the pandas/NumPy subset models (pandas 3.0 semantics).",
    ref="DESIGN.md section 6 C02")
CHECKS["C06"] = dict(engine="SMT",
    technique="z3 refutation of the negated expectation identity over ALL real probability vectors, with coefficients obtained by evaluating the real pc_n / pc / varpc_n exactly on every count vector; symbolic tracing for stdpc_n / stdpc",
    text="For each (K, N) in range the expectation of the real estimator is a polynomial in p whose coefficients come from running the real code on every composition of N; z3 proves the polynomial identity E[pc]=sum p^2 (homogenised), E[varpc_n]=Var(pc), E[pc(a,b)]=sum p q for all real p, q (unsat of the negation); a biased-denominator twin must be sat (vacuity control). stdpc_n == varpc_n**0.5 and stdpc(xs) == stdpc_n(counts) as term equalities.",
    note=_SMT_NOTE,
    ref="DESIGN.md section 6 C06")
CHECKS["C16"] = dict(engine="SMT+XH",
    technique="fork-on-branch tracing of chao1/chao2/var_chao1/var_chao2 on symbolic count vectors with z3 deciding result == closed form on every path (incl. NaN paths and no-raise); CrossHair + z3 for jaccard/overlap/overlap_coefficient on symbolic label collections",
    text="Count vectors of length 1-4 with unbounded non-negative integer entries, list and ndarray form: every path of the real code returns the closed form (or NaN exactly when f2 is zero/absent), never raises, and a defined chao estimate is >= S_obs. Overlap utilities on lists/sets/Series of <= 3 symbolic labels with symbolic missing positions equal the set-algebra definition and are symmetric.",
    note=_SMT_NOTE + " Overlap conditions trust CrossHair, the plugin and the pandas Series model.",
    ref="DESIGN.md section 6 C16")

CHECKS["C12"] = dict(
    technique="bounded symbolic execution of the one-edit generators with a SYMBOLIC alphabet (CrossHair + z3): the yielded list must be duplicate-free and equal, as a set, to the naive single-edit set - one z3 formula per path",
    text="levenshtein_neighbors / hamming_neighbors on a free string x (length <= 3, 4 thorough) and an alphabet of 1-3 symbolic pairwise-distinct letters (every alphabet of that size and every coincidence pattern between its letters and x's), plus the 20 concrete letters at |x| <= 1; next_nearest_neighbors against iterated naive edits; find_neighbor_pairs(_index), calculate_neighbor_numbers, isdist1, nndist_hamming against Levenshtein/Hamming distance terms.",
    note=_XH_NOTE,
    ref="DESIGN.md section 6 C12")

CHECKS["C18"] = dict(
    technique="bounded symbolic execution of isvalidaa / isvalidcdr3 on free strings and representative non-string objects, and of standardize_dataframe / multimerge with tidytcells and pandas.merge as uninterpreted term constructors (CrossHair + z3)",
    text="Predicates: for every string of length <= 2 (3 thorough) the result equals the regular definition, and for None/NaN/numbers/bytes/containers/dicts a bool is returned without raising. standardize_dataframe: the input table is untouched (cell identity), rows/index/extra columns preserved, each standard cell is None if missing else exactly the documented tidytcells call with exactly the documented options (options symbolic or non-default so mis-wiring is visible), standardize=False and col_mapper and df/df_old handled. multimerge: the result is the left fold of pandas.merge with the documented keying, suffixing and how='outer' default.",
    note=_XH_NOTE + " tidytcells' answers and pandas' join algorithm are uninterpreted.",
    ref="DESIGN.md section 6 C18")

CHECKS["C05"] = dict(
    technique="bounded symbolic execution of the real pcDelta / downsample / default-metric code (CrossHair + z3): metric distances, bin edges and pseudocount are symbolic reals, numpy.random is a nondeterministic oracle (every possible draw), histogram counts are compared as z3 terms",
    text="For any Metric (its outputs are fresh symbolic non-negative reals) and 1-3 symbolic increasing bin edges: per-bin counts follow the half-open/last-closed convention, one entry per unordered pair (cross form: every (i,j)), normalisation and (count+c)/(total+2c) arithmetic; with the real Levenshtein metric on free strings: diagonal excluded, distance-0 count, bins=0 == pc; default metric class for every column subset; with maxseqs the histogram is that of exactly min(N, maxseqs) drawn elements for EVERY outcome of the generator; background bins = index + [last+1].",
    note=_XH_NOTE + " numpy.histogram / random.choice contracts; floats are reals.",
    ref="DESIGN.md section 6 C05")
CHECKS["C08"] = dict(
    technique="bounded symbolic execution of WeightedLevenshtein / Levenshtein / pdist / cdist with SYMBOLIC edit weights and free strings (CrossHair + z3); oracle = independent top-down minimum-cost edit-script term",
    text="calc_cdist_matrix[i,j] equals the minimum total weight of insertions/deletions/substitutions turning A[i] into B[j] for all positive integer weight triples in range (asymmetric weights included) and all strings of length <= 2 (3 thorough); calc_pdist_vector obeys the SciPy condensed index formula for m <= 5; functional pdist/cdist place an arbitrary metric's values correctly and forward keyword arguments; no narrowing dtype/score_cutoff is passed to rapidfuzz.process.cdist. The 400-character no-wrap-around clause is outside the claim (see DESIGN.md).",
    note=_XH_NOTE,
    ref="DESIGN.md section 6 C08")

CHECKS["C13"] = dict(
    technique="bounded symbolic execution of the grouped / conditional / entropy statistics on tables whose grouping keys and feature values are symbolic (CrossHair + z3, pandas groupby contract model); oracle = the coincidence counts of independently formed groups as z3 terms; log uninterpreted",
    text="pc_conditional equals the w^2-weighted mean of pc over groups with >= 2 members (every partition of 3-4 rows, symbolic weights), NaN when no such group; pc_grouped_cross[g,h] = pc(g,h), symmetric labels, NaN diagonal; pcDelta_grouped / pcDelta_grouped_cross (condensed, and square with bins=0) equal the per-group / per-pair histograms of the real pcDelta; renyi2 / stdrenyi2 entropies equal -log(pc...)/log(base) resp. stdpc/(pc log base) as term equalities. One recorded known finding (square form with vector bins).",
    note=_XH_NOTE + " pandas groupby/apply/filter semantics are a contract model (pandas 3.0: grouping columns excluded from apply, groups in ascending key order).",
    ref="DESIGN.md section 6 C13")
CHECKS["C15"] = dict(
    technique="bounded symbolic execution of graph_clustering('cc') on symbolic edge lists (igraph union-find contract) with an independent BFS oracle, and of hierarchical_clustering with linkage / fcluster / metric as uninterpreted term constructors (CrossHair + z3)",
    text="Every neighbour list of 0-3 symbolic triplets over 2-4 nodes: returned rows are exactly the nodes whose component has more than one member, labelled with the caller's labels in input order, two rows share a cluster id iff connected; hierarchical_clustering returns exactly (linkage(metric.calc_pdist_vector(seqs), **linkage_kws), fcluster(that, **cluster_kws)) with the default metric chosen by input kind and option dictionaries forwarded and left untouched. Community methods and the single-linkage<=>components identity are outside the claim.",
    note=_XH_NOTE,
    ref="DESIGN.md section 6 C15")
CHECKS["C17"] = dict(engine="XH+SMT",
    technique="numpy.random replaced by a nondeterministic oracle so that subsample / downsample assertions are decided for EVERY possible draw (CrossHair + z3); powerlaw_sample / powerlaw_mle_alpha traced on symbolic reals with pow / log / zeta uninterpreted (z3)",
    text="subsample: for all count vectors (K <= 3, counts 0..2), all n and all draws: sorted unique indices, positive counts summing to n, each <= original; n > total raises; the population handed to the generator has counts[i] entries labelled i (uniformity over items reduces to NumPy's). downsample: identity (same object) when len <= maxseqs / None, else exactly maxseqs drawn input elements / rows. powerlaw_sample: every sample is an integer >= xmin for all uniforms in [0,1), integer xmin >= 1, alpha > 1 (one axiom on pow). powerlaw_mle_alpha: closed forms for 'simple' / 'continuitycorrection' over the counts >= cmin; for 'exact' the objective and bounds handed to the optimiser.",
    note=_XH_NOTE + " " + _SMT_NOTE,
    ref="DESIGN.md section 6 C17")

CHECKS["C09"] = dict(
    technique="bounded symbolic execution of the six TcrLevenshtein metric classes on tables with symbolic index labels, symbolic V-allele choice, free CDR strings and symbolic edit weights (CrossHair + z3); tidytcells' gene reference is a symbolic dictionary",
    text="calc_cdist_matrix[i,j] equals the sum over chains and loops in scope of chain_weight*loop_weight*weighted-Levenshtein(loop_i, loop_j) (CDR1/CDR2 from the row's V allele, empty when the allele lacks the loop); hence additivity of the paired metrics, independence from index labels (symbolic, duplicates allowed) and row order; calc_pdist_vector is the condensed upper triangle; non-tables raise ValueError; caller's tables untouched (cell identity).",
    note=_XH_NOTE + " Chain/loop weights are distinct primes in most conditions (a swap is observable) and symbolic in dedicated 1x1 conditions.",
    ref="DESIGN.md section 6 C09")

CHECKS["C19"] = dict(
    technique="bounded symbolic execution of the summary / plotting helpers with matplotlib, seaborn and logomaker drawing calls replaced by call recorders (CrossHair + z3): the DATA handed to the drawing primitives and the returned values are asserted",
    text="seqs_to_regex (no alignment) equals the product of per-position observed-residue sets with '?' for gapped columns; seqs_to_consensus picks a most frequent residue per kept position; seqlogos' count matrix; rankfrequency's step() receives the descending (normalised, scaled) values against their 0-based (normalised, scaled) ranks with missing values dropped; label colour maps: equal labels equal colours, rarer than min_count black, hls distinct for every shuffle outcome; density_scatter(discrete) draws each distinct point once with its multiplicity, densest last; similarity_clustermap returns linkage/fcluster of the summed chain distances and hands alpha / beta square matrices as lower / upper data with the shared linkage. Rendered-figure observables (triangle layout, dendrogram order) are outside the claim.",
    note=_XH_NOTE + " Drawing libraries are recorders; logomaker.alignment_to_matrix and seaborn.hls_palette are contract models.",
    ref="DESIGN.md section 6 C19")
CHECKS["C20"] = dict(
    technique="one inductive step per public function from an arbitrary state, decided by bounded symbolic execution (CrossHair + z3): module-level state havocked, other calls (including a raising one) interposed, every mutable default of every pyrepseq function audited, caller containers compared leaf-by-leaf by identity, results before/after compared as z3 terms; randomised calls re-run with the recorded generator outcomes",
    text="For 36 call scenarios covering search, statistics, metrics, io, clustering and plotting helpers: the call leaves its arguments and option dictionaries untouched, leaves all 9 mutable default arguments in the package at their import-time values, and returns the same value whether it runs first or after havocked module state and interposed calls; with the same generator outcomes a randomised call returns the same value. By induction on history length every history leaves the observable state equal to the initial one.",
    note=_XH_NOTE + " Third-party global state (matplotlib figure stack, pandas options) is outside the claim.",
    ref="DESIGN.md section 6 C20")

NOT_APPLICABLE = {}

def main():
    man = {
        "version": 1,
        "setup_cmd": "./setup.sh",
        "hooks": {"guard": "PYREPSEQ_VERIF", "enable": "none needed: models are rebound from outside at analysis time; pyrepseq source carries no hooks",
                  "baseline_off_cmd": "cd /repo && /venv/bin/python -m pytest -ra -q -p no:cacheprovider --timeout=900 --continue-on-collection-errors",
                  "source_commits": [], "add_only": True},
        "engines": [
            {"name": "XH", "path": "vlib/xh_worker.py", "serves_properties": sorted(CHECKS),
             "kind_free_text": "path-wise symbolic execution of the real Python (CrossHair 0.0.110 + z3 5.1) with library contract models and a dict/set-display plugin"},
            {"name": "SMT", "path": "vlib/smt_worker.py", "serves_properties": sorted(k for k, v in CHECKS.items() if "SMT" in v.get("engine", "")),
             "kind_free_text": "z3/cvc5 queries on terms traced from the real arithmetic (operator-overloading tracer with fork-on-branch)"},
        ],
        "checks": [],
        "not_applicable": [{"property_id": k, "reason": v} for k, v in sorted(NOT_APPLICABLE.items())],
        "notes": "All checks: ./vcheck <ID> --tier quick|thorough ; exit 0 = held on everything explored, exit 1 + VIOLATION line = reproduced violation. See DESIGN.md.",
    }
    for pid in sorted(CHECKS):
        c = CHECKS[pid]
        man["checks"].append({
            "property_id": pid,
            "quick_cmd": f"./vcheck {pid} --tier quick",
            "thorough_cmd": f"./vcheck {pid} --tier thorough",
            "evidence_file": f"evidence/{pid}.json",
            "replay_cmd_template": f"./vcheck {pid} --replay {{path}}",
            "engine": c.get("engine", "XH"),
            "level_claimed": {"category": "model_checking", "text": c["text"], "design_ref": c["ref"]},
            "level_note": c["note"],
            "technique": c["technique"],
        })
    json.dump(man, open(os.path.join(HERE, "MANIFEST.json"), "w"), indent=1)
    try:
        import jsonschema
        jsonschema.validate(man, json.load(open("/root/.vp/MANIFEST.schema.json")))
        for pid in CHECKS:
            p = os.path.join(HERE, "evidence", f"{pid}.json")
            if os.path.exists(p):
                jsonschema.validate(json.load(open(p)), json.load(open("/root/.vp/EVIDENCE.schema.json")))
        print("MANIFEST valid;", len(man["checks"]), "checks")
    except ImportError:
        print("written (jsonschema not available)")

if __name__ == "__main__":
    main()
