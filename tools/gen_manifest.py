#!/usr/bin/env python3
"""Regenerate /verif/MANIFEST.json from the table below (run after adding/removing a check)."""
import json, os
HERE = os.path.dirname(os.path.dirname(os.path.abspath(__file__)))

CHECKS = {
 "C01": dict(
    technique="bounded symbolic execution of the real nearest_neighbor/symdel code (CrossHair + z3), one condition per input shape, solver verdict over all string contents",
    text="For each listed shape (2-4 strings, lengths <=3 quick / <=5 thorough, max_edits<=3) the real symdel code is executed symbolically with every character a free Unicode code point; CrossHair reports 'Confirmed over all paths' only when z3 has shown on every feasible path that the result equals the Levenshtein-ball specification. Bounded model checking: nothing is claimed beyond the shapes.",
    note="Trusted: CrossHair 0.0.110 symbolic str/int/container semantics, the dict/set display plugin (vlib/plugin.py), z3 5.1, the rapidfuzz contract model (models/rf_model.py; every solver witness is replayed on the real rapidfuzz-backed stack).",
    ref="DESIGN.md section 6 C01"),
}

_XH_NOTE = "Trusted: CrossHair 0.0.110 symbolic str/int/container semantics, the dict/set display plugin (vlib/plugin.py), z3 5.1, and the library contract models named in the evidence (each validated by the conformance pre-flight and by replaying every sampled solver witness on the real, unmodelled stack)."
CHECKS["C03"] = dict(
    technique="bounded symbolic execution of the real two-collection search code (symdel seqs2 / SymdelDB.lookup / LookupDB.lookup) with CrossHair + z3; database histories via one inductive step (lookup leaves the index unchanged)",
    text="Per shape (1-3 references x 1-3 queries, lengths <=3 quick / <=4 thorough, max_edits<=3) the real lookup code runs on free symbolic strings; the assertion (exact triplet set, query/reference orientation, equal-position pairs, index unchanged by a lookup, second lookup equals a fresh search) is confirmed on every path or refuted with a concrete input that is replayed on the real stack.",
    note=_XH_NOTE + " LookupDB is exercised with pyrepseq's alphabet constant rebound to 2-3 letters (20 letters at length <=1).",
    ref="DESIGN.md section 6 C03")
CHECKS["C04"] = dict(
    technique="bounded symbolic execution of the real hash_based and kdtree code against the Levenshtein-ball specification (CrossHair + z3), KD-tree / rapidfuzz.extract / NumPy replaced by contract models",
    text="Per shape (2-3 amino-acid strings, lengths <=3, contents free within 2-3 letter sub-alphabets that share or straddle kdtree's composition bins, max_edits<=3, compression 1-3) the real engines are executed symbolically and must return exactly the specified triplet set; bounded model checking with the KD-tree ball query as a contract.",
    note=_XH_NOTE,
    ref="DESIGN.md section 6 C04")
CHECKS["C07"] = dict(
    technique="bounded symbolic execution of all three engines in Hamming mode (incl. symdel's two-collection form) on mixed-length inputs, CrossHair + z3",
    text="Per shape (2-4 strings of interleaved lengths <=3) the real code must return exactly the equal-length pairs within max_edits mismatches with positions in input order; confirmed over all paths or refuted with a replayed concrete input.",
    note=_XH_NOTE,
    ref="DESIGN.md section 6 C07")

NOT_APPLICABLE = {}

def main():
    man = {
        "version": 1,
        "setup_cmd": "./setup.sh",
        "hooks": {"guard": "PYREPSEQ_VERIF", "enable": "none needed: models are rebound from outside at analysis time; pyrepseq source carries no hooks",
                  "baseline_off_cmd": "cd /repo && /venv/bin/python -m pytest -ra -q -p no:cacheprovider --timeout=900 --continue-on-collection-errors",
                  "source_commits": [], "add_only": True},
        "engines": [
            {"name": "XH", "path": "vlib/xh_worker.py", "serves_properties": sorted(CHECKS),
             "kind_free_text": "path-wise symbolic execution of the real Python (CrossHair 0.0.110 + z3 5.1) with library contract models and a dict/set-display plugin"},
            {"name": "SMT", "path": "vlib/smt_worker.py", "serves_properties": [],
             "kind_free_text": "z3/cvc5 queries on terms traced from the real arithmetic (operator-overloading tracer with fork-on-branch)"},
        ],
        "checks": [],
        "not_applicable": [{"property_id": k, "reason": v} for k, v in sorted(NOT_APPLICABLE.items())],
        "notes": "All checks: ./vcheck <ID> --tier quick|thorough ; exit 0 = held on everything explored, exit 1 + VIOLATION line = reproduced violation. See DESIGN.md.",
    }
    for pid in sorted(CHECKS):
        c = CHECKS[pid]
        man["checks"].append({
            "property_id": pid,
            "quick_cmd": f"./vcheck {pid} --tier quick",
            "thorough_cmd": f"./vcheck {pid} --tier thorough",
            "evidence_file": f"evidence/{pid}.json",
            "replay_cmd_template": f"./vcheck {pid} --replay {{path}}",
            "engine": c.get("engine", "XH"),
            "level_claimed": {"category": "model_checking", "text": c["text"], "design_ref": c["ref"]},
            "level_note": c["note"],
            "technique": c["technique"],
        })
    json.dump(man, open(os.path.join(HERE, "MANIFEST.json"), "w"), indent=1)
    try:
        import jsonschema
        jsonschema.validate(man, json.load(open("/root/.vp/MANIFEST.schema.json")))
        for pid in CHECKS:
            p = os.path.join(HERE, "evidence", f"{pid}.json")
            if os.path.exists(p):
                jsonschema.validate(json.load(open(p)), json.load(open("/root/.vp/EVIDENCE.schema.json")))
        print("MANIFEST valid;", len(man["checks"]), "checks")
    except ImportError:
        print("written (jsonschema not available)")

if __name__ == "__main__":
    main()
