#!/bin/sh
# usage: tools/confirm_seed.sh <worktree> <name> <demo file>   (change applied in the worktree)
# confirms: baseline tests still pass with the change; demo fails with it and passes without it
WT="$1"; NAME="$2"; DEMO="$3"
cd "$WT" || exit 9
git diff -- pyrepseq > /tmp/confirm_$NAME.diff
[ -s /tmp/confirm_$NAME.diff ] || { echo "no change applied"; exit 9; }
/venv/bin/python -m pytest -q -p no:cacheprovider --timeout=900 --continue-on-collection-errors tests/ 2>&1 | tail -1 > /tmp/confirm_$NAME.tests_with
timeout 300 /venv/bin/python "$DEMO" > /tmp/confirm_$NAME.demo_with 2>&1; RC_WITH=$?
git apply -R /tmp/confirm_$NAME.diff || exit 9
timeout 300 /venv/bin/python "$DEMO" > /tmp/confirm_$NAME.demo_without 2>&1; RC_WITHOUT=$?
git apply /tmp/confirm_$NAME.diff
echo "tests with change: $(cat /tmp/confirm_$NAME.tests_with)"
echo "demo exit with change: $RC_WITH ; without: $RC_WITHOUT"
