#!/bin/sh
# end-to-end run of every thorough command (development aid; results are not evidence)
cd "$(dirname "$0")/.." || exit 3
for i in ${1:-01 02 03 04 05 06 07 08 09 10 11 12 13 14 15 16 17 18 19 20}; do
  s=$(date +%s)
  ./vcheck C$i --tier thorough --no-evidence > thorough_C$i.log 2>&1; rc=$?
  echo "C$i exit=$rc wall=$(( $(date +%s) - s ))s $(tail -1 thorough_C$i.log | cut -c1-220)"
  grep -E "^(VIOLATION|HARNESS-ERROR|INCONCLUSIVE|ERROR|KNOWN-FINDING|MODEL-CONF)" thorough_C$i.log | cut -c1-260 | head -12
done
