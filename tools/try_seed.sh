#!/bin/sh
# usage: tools/try_seed.sh <patch.diff> <PROP> [--tier quick|thorough] [--only substr]
# applies the patch to /repo, runs the check, always restores /repo afterwards
P="$1"; shift; ID="$1"; shift
cd /repo || exit 9
git diff --quiet || { echo "/repo has uncommitted changes"; exit 9; }
git apply "$P" || { echo "patch does not apply"; exit 9; }
cd /verif
./vcheck "$ID" --no-evidence "$@" > /tmp/try_seed.out 2>&1; rc=$?
git -C /repo checkout -- .
grep -c '^VIOLATION' /tmp/try_seed.out | sed 's/^/violations: /'
grep '^violation' /tmp/try_seed.out | cut -c1-300 | head -4
tail -1 /tmp/try_seed.out | cut -c1-250
rm -rf /verif/replays
echo "exit=$rc"
