#!/bin/sh
# usage: tools/try_seed.sh <patch.diff> <PROP> [--tier quick|thorough] [--only substr]
# copies /repo's working tree to a scratch directory, applies the patch THERE and points the check at it (VERIF_REPO);
# /repo itself is never touched.  The scratch copy is removed afterwards.
P="$(realpath "$1")"; shift; ID="$1"; shift
S=$(mktemp -d /tmp/seedrepo.XXXXXX)
cp -r /repo/pyrepseq /repo/setup.py "$S"/ 2>/dev/null
( cd "$S" && git init -q . && git apply "$P" ) || { echo "patch does not apply"; rm -rf "$S"; exit 9; }
cd /verif
VERIF_REPO="$S" ./vcheck "$ID" --no-evidence "$@" > /tmp/try_seed.$$.out 2>&1; rc=$?
rm -rf "$S"
grep -c '^VIOLATION' /tmp/try_seed.$$.out | sed 's/^/violations: /'
grep '^violation' /tmp/try_seed.$$.out | cut -c1-300 | head -4
tail -1 /tmp/try_seed.$$.out | cut -c1-250
rm -f /tmp/try_seed.$$.out
echo "exit=$rc"
