#!/bin/sh
# usage: tools/ingest_seed.sh <PROP> <slug> "<needs_to_manifest>" <round>
# confirms the change in /tmp/wt_<PROP> (tools/confirm_seed.sh), stores it as seeded/<PROP>-<slug>/ and runs the quick check on a scratch copy
ID="$1"; SLUG="$2"; NEEDS="$3"; ROUND="$4"; WT=/tmp/wt_$ID; D=/verif/seeded/$ID-$SLUG
OUT=$(/verif/tools/confirm_seed.sh "$WT" "$ID" "$WT/demo_$ID.py"); echo "$OUT"
echo "$OUT" | grep -q '71 passed' || { echo "suite changed"; exit 9; }
echo "$OUT" | grep -q 'with change: [1-9][0-9]* ; without: 0' || { echo "demo not discriminating"; exit 9; }
mkdir -p "$D"; cp /tmp/confirm_$ID.diff "$D/patch.diff"
sed "s#/tmp/wt_$ID#REPO_UNDER_TEST#g" "$WT/demo_$ID.py" > "$D/demo.py"
RES=$(/verif/tools/try_seed.sh "$D/patch.diff" "$ID" --tier quick); echo "$RES"
python3 - "$ID" "$SLUG" "$NEEDS" "$ROUND" "$RES" <<'P'
import json,sys
ID,SLUG,NEEDS,ROUND,RES=sys.argv[1:6]
caught='exit=1' in RES
json.dump({"id":f"{ID}-{SLUG}","property":ID,"round":int(ROUND),"needs_to_manifest":NEEDS,
 "confirmed_by":["tools/confirm_seed.sh: baseline suite with the change = 71 passed (4 failed + 1 collection error, as in every scratch worktree of the unchanged tree)",
 "demo.py exits non-zero with the change applied and 0 without it (sys.path entry REPO_UNDER_TEST must be replaced by the tree under test)"],
 "detected_by":("caught on arrival: ./vcheck %s --tier quick (tools/try_seed.sh) -> exit 1 with a reproduced VIOLATION"%ID) if caught else "MISSED on arrival: "+RES[-200:],
 "source":"independent sub-agent given only the property text, a scratch worktree and the instruction to differ from the six earlier seeds"},
 open(f"/verif/seeded/{ID}-{SLUG}/meta.json","w"),indent=1)
P
